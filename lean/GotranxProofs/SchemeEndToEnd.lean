import GotranxProofs.GenValidRL
import GotranxProofs.Properties.C05
import GotranxProofs.Properties.C06
import GotranxProofs.Properties.C13
import GotranxProofs.Properties.C12
/-!
# The scheme programs of the `Impl` generators compute the documented step

`genEuler_correct`: for every well-formed model (no quantity called `dt`), every covering dependency
order and both settings of unused-variable removal, the program `Impl.genEuler` produces writes
`states[i] + dt * f` into slot `i`, where `f` is the value the equational specification gives to the
derivative of the state in slot `i` — for every input on which it runs and every interpretation of
the arithmetic.  `genGRL_correct` / `genHybrid_correct`: the Rush–Larsen programs write, into slot
`i`, the value of `rlStore` for that state: the Euler expression, or `x + (|g| > δ ? f/g·(exp(g·dt) − 1) : dt·f)`
with `g` the value of the symbolic linearisation.
-/
namespace Gx
namespace SchemeEndToEnd
open Impl Kahn GenValid GenValidRL

/-- the defines of a generated scheme body are the model's own equations or linearisation helpers -/
theorem defines_of_program (m : Model) (L : Layout) (mk : Name → Name → Expr → List Stmt × Expr) (keepP : Name → Bool)
    (order bound : List Name) (hdef : ∀ x ∈ order, (m.rhsOf x).isSome) (hPre : PreC m mk order bound) :
    ∀ d ∈ defines (unpackStates L (fun _ => true) ++ unpackParams L keepP ++ unpackMissing L ++ bodySlots m L mk order),
      m.rhsOf d.1 = some d.2 ∨ ∃ x ∈ order, (m.stateOfDeriv x).isSome ∧ d.1 = linName x := by
  intro d hd
  rw [defines_append, defines_append, defines_append, unpackStates_eq, unpackParams_eq, unpackMissing_eq,
    (unpackBlock_facts _ _ _ 0).2.1, (unpackBlock_facts _ _ _ 0).2.1, (unpackBlock_facts _ _ _ 0).2.1] at hd
  simp only [List.nil_append] at hd
  exact (body_structure2 m L mk order bound hdef hPre).2.1 d hd

/-- which define and which store a scheme body contains, with their expressions -/
theorem body_structure3 (m : Model) (L : Layout) (mk : Name → Name → Expr → List Stmt × Expr) :
    ∀ (names bound : List Name), (∀ x ∈ names, (m.rhsOf x).isSome) → PreC m mk names bound →
    (∀ d ∈ defines (bodySlots m L mk names), m.rhsOf d.1 = some d.2 ∨
        ∃ x s e, x ∈ names ∧ m.stateOfDeriv x = some s ∧ m.rhsOf x = some e ∧ (mk s x e).1 = [.define d.1 d.2]) ∧
    (∀ st ∈ stores (bodySlots m L mk names), ∃ x s e, x ∈ names ∧ m.stateOfDeriv x = some s ∧ m.rhsOf x = some e ∧
        st = ((slotOf L.state s).getD 0, (mk s x e).2)) := by
  intro names
  induction names with
  | nil => intro _ _ _; simp [bodySlots, defines, stores]
  | cons x rest ih =>
    intro bound hdef hmk
    obtain ⟨e, he⟩ := Option.isSome_iff_exists.mp (hdef x (by simp))
    obtain ⟨ih1, ih2⟩ := ih bound (fun y hy => hdef y (by simp [hy]))
      (hmk.mono (fun _ h => h) rest (fun y hy => by simp [hy]))
    have lift1 : ∀ d : Name × Expr, (m.rhsOf d.1 = some d.2 ∨
          ∃ y s e, y ∈ rest ∧ m.stateOfDeriv y = some s ∧ m.rhsOf y = some e ∧ (mk s y e).1 = [.define d.1 d.2]) →
        (m.rhsOf d.1 = some d.2 ∨
          ∃ y s e, y ∈ x :: rest ∧ m.stateOfDeriv y = some s ∧ m.rhsOf y = some e ∧ (mk s y e).1 = [.define d.1 d.2]) := by
      intro d h
      rcases h with h | ⟨y, s, e', hy, h1, h2, h3⟩
      · exact Or.inl h
      · exact Or.inr ⟨y, s, e', by simp [hy], h1, h2, h3⟩
    have lift2 : ∀ st : Nat × Expr, (∃ y s e, y ∈ rest ∧ m.stateOfDeriv y = some s ∧ m.rhsOf y = some e ∧
          st = ((slotOf L.state s).getD 0, (mk s y e).2)) →
        (∃ y s e, y ∈ x :: rest ∧ m.stateOfDeriv y = some s ∧ m.rhsOf y = some e ∧
          st = ((slotOf L.state s).getD 0, (mk s y e).2)) := by
      rintro st ⟨y, s, e', hy, h1, h2, h3⟩
      exact ⟨y, s, e', by simp [hy], h1, h2, h3⟩
    cases hs : m.stateOfDeriv x with
    | none =>
      simp only [bodySlots, he, hs, defines, stores]
      refine ⟨?_, fun st hst => lift2 st (ih2 st hst)⟩
      intro d hd
      simp only [List.mem_cons] at hd
      rcases hd with rfl | hd
      · exact Or.inl he
      · exact lift1 d (ih1 d hd)
    | some s =>
      rcases hmk x (by simp) s e hs he with ⟨hpre, _⟩ | ⟨g, hpre, _, _⟩
      · have hbody : bodySlots m L mk (x :: rest) =
            .define x e :: .store ((slotOf L.state s).getD 0) (mk s x e).2 :: bodySlots m L mk rest := by
          simp only [bodySlots, he, hs]; rw [hpre]; rfl
        rw [hbody]
        simp only [defines, stores]
        refine ⟨?_, ?_⟩
        · intro d hd
          simp only [List.mem_cons] at hd
          rcases hd with rfl | hd
          · exact Or.inl he
          · exact lift1 d (ih1 d hd)
        · intro st hst
          simp only [List.mem_cons] at hst
          rcases hst with rfl | hst
          · exact ⟨x, s, e, by simp, hs, he, rfl⟩
          · exact lift2 st (ih2 st hst)
      · have hbody : bodySlots m L mk (x :: rest) =
            .define x e :: .define (linName x) g :: .store ((slotOf L.state s).getD 0) (mk s x e).2 ::
              bodySlots m L mk rest := by
          simp only [bodySlots, he, hs]; rw [hpre]; rfl
        rw [hbody]
        simp only [defines, stores]
        refine ⟨?_, ?_⟩
        · intro d hd
          simp only [List.mem_cons] at hd
          rcases hd with rfl | rfl | hd
          · exact Or.inl he
          · exact Or.inr ⟨x, s, e, by simp, hs, he, hpre⟩
          · exact lift1 d (ih1 d hd)
        · intro st hst
          simp only [List.mem_cons] at hst
          rcases hst with rfl | hst
          · exact ⟨x, s, e, by simp, hs, he, rfl⟩
          · exact lift2 st (ih2 st hst)

/-- **explicit Euler, end to end on the `Impl` layer** -/
theorem genEuler_correct {α} (N : Num α) (m : Model) (π : DepOrder) (ru : Bool) (L : Layout) (p : List Stmt)
    (inp : Inputs α) (t dt : α) (ρ : Env α) (s' : St α)
    (hwf : ModelWF m) (hπ : ∀ a ∈ m.assigns, ∀ y ∈ fv a.2, y ∈ π a.1 a.2)
    (hdtn : "dt" ∉ m.stateNames ∧ "dt" ∉ m.paramNames ∧ "dt" ∉ m.assignNames ∧ "dt" ∉ missingVariables m)
    (hL : layout m π = some L) (hp : genEuler m π ru = some p)
    (hsol : Solution N m L inp t ρ) (hdt : ρ "dt" = some dt)
    (hx : exec N inp (initScheme t dt) p = some s') :
    ∀ i X, L.state[i]? = some X → ∃ d x f, m.stateOfDeriv d = some X ∧ inp .states i = some x ∧ ρ d = some f ∧
      s'.result i = some (N.add x (N.mul dt f)) := by
  have hchk := genEuler_valid m π ru L p hwf hπ hdtn hL hp
  unfold genEuler at hp
  rw [hL] at hp
  cases hord : sortedAssignments m π ru with
  | none => simp [hord] at hp
  | some order =>
    simp only [hord, Option.bind_eq_bind, Option.bind_some, Option.pure_def, Option.some.injEq] at hp
    have hk : ∀ y, (mentioned m).contains y = true → (!ru || (mentioned m).contains y) = true := by
      intro y hy; rw [hy]; simp
    obtain ⟨_, _, _, _, h5⟩ := gen_core m π ru L order initBoundScheme (fun s d _ => ([], eulerStore s d))
      (fun _ => true) (fun x => !ru || (mentioned m).contains x)
      hwf hπ hL hord (fun _ _ => rfl) hk (fun x hx => by simp [initBoundScheme, hx])
      (fun x hx => by
        simp only [initBoundScheme, List.mem_cons] at hx
        rcases hx with rfl | hx
        · exact hdtn
        · exact ⟨(hwf.time x hx).1, (hwf.time x hx).2.1, (hwf.time x hx).2.2, time_not_missing m x hx⟩)
      (fun x _ s e _ _ => ⟨rfl, fun y hy => by
        simp only [eulerStore, fv, List.mem_append, List.mem_cons, List.not_mem_nil, or_false] at hy
        rcases hy with rfl | rfl | rfl
        · exact Or.inr (Or.inr ⟨rfl, rfl⟩)
        · exact Or.inr (Or.inl (by simp [initBoundScheme]))
        · exact Or.inl rfl⟩)
    obtain ⟨hnd, hmem, _⟩ := sorted_facts m π ru order hwf.assigns_nodup hπ hord
    have hdef : ∀ x ∈ order, (m.rhsOf x).isSome := by
      intro x hx
      obtain ⟨a, ha, rfl⟩ := List.mem_map.mp ((hmem x).mp hx)
      exact rhsOf_isSome_of_mem m a.1 (List.mem_map.mpr ⟨a, keptAssigns_sub m ru a ha, rfl⟩)
    -- the program's defines are the model's equations, which `ρ` satisfies
    have hD : ∀ d ∈ defines p, ρ d.1 = eval N ρ d.2 := by
      intro d hd
      rw [← hp] at hd
      rw [defines_append, defines_append, defines_append, unpackStates_eq, unpackParams_eq, unpackMissing_eq,
        (unpackBlock_facts _ _ _ 0).2.1, (unpackBlock_facts _ _ _ 0).2.1, (unpackBlock_facts _ _ _ 0).2.1] at hd
      simp only [List.nil_append] at hd
      have := (body_structure m L (fun s d _ => ([], eulerStore s d)) order hdef (fun _ _ _ _ _ _ => rfl)).2.2.1 d hd
      exact (hsol.2.2.2.2 d.1 d.2 (lookup_mem _ _ _ this)).1
    intro i X hiX
    have hi : i < L.state.length := by
      rcases Nat.lt_or_ge i L.state.length with h | h
      · exact h
      · rw [List.getElem?_eq_none h] at hiX; cases hiX
    obtain ⟨e, hmem', hsome, hres⟩ := checkScheme_sound N m L inp t dt ρ p s' hchk hsol hdt hD hx i hi
    rw [← hp] at hmem'
    obtain ⟨x, s, e', _, hs, _, hslot, hexpr⟩ := h5 (i, e) hmem'
    simp only at hslot hexpr
    rw [hiX] at hslot
    cases hslot
    subst hexpr
    have hX : ρ X = inp .states i := hsol.1 i X hiX
    -- the stored expression evaluates, so its three names are bound
    cases hρX : ρ X with
    | none => simp [eulerStore, eval, hρX] at hsome
    | some xv =>
      cases hρd : ρ x with
      | none => simp [eulerStore, eval, hρX, hdt, hρd] at hsome
      | some f =>
        refine ⟨x, xv, f, hs, by rw [← hX, hρX], hρd, ?_⟩
        rw [hres]
        exact C05.eval_eulerStore N ρ X x xv dt f hρX hdt hρd

/-- **the Rush–Larsen programs, end to end on the `Impl` layer**: slot `i` holds the value of the
`rlStore` expression of its state at any environment that solves the model's equations *and*
binds every `<d>_linearized` helper to the value of the symbolic linearisation `diff X (rhs of d)`. -/
theorem gen_rl_correct {α} (N : Num α) (m : Model) (π : DepOrder) (ru : Bool) (L : Layout) (order : List Name)
    (stiff : Name → Bool) (delta : Expr)
    (inp : Inputs α) (t dt : α) (ρ : Env α) (s' : St α)
    (hwf : ModelWF m) (hcl : NoHelperClash m) (hπ : ∀ a ∈ m.assigns, ∀ y ∈ fv a.2, y ∈ π a.1 a.2)
    (hδ : fv delta = []) (hL : layout m π = some L) (hord : sortedAssignments m π ru = some order)
    (hsol : Solution N m L inp t ρ) (hdt : ρ "dt" = some dt)
    (hlin : ∀ d X e, m.stateOfDeriv d = some X → m.rhsOf d = some e → ρ (linName d) = eval N ρ (diff X e))
    (hx : exec N inp (initScheme t dt) (unpackStates L (fun _ => true) ++ unpackParams L (fun x => !ru || (mentioned m).contains x) ++
      unpackMissing L ++ bodySlots m L (rlStore stiff delta) order) = some s') :
    ∀ i X, L.state[i]? = some X → ∃ d e, m.stateOfDeriv d = some X ∧ m.rhsOf d = some e ∧
      (eval N ρ (rlStore stiff delta X d e).2).isSome ∧ s'.result i = eval N ρ (rlStore stiff delta X d e).2 := by
  have hk : ∀ y, (mentioned m).contains y = true → (!ru || (mentioned m).contains y) = true := by
    intro y hy; rw [hy]; simp
  have hchk := gen_core2 m π ru L order (rlStore stiff delta) (fun x => !ru || (mentioned m).contains x)
    hwf hcl hπ hL hord hk (fun bound hS hI => rlStore_preC m hwf stiff delta hδ order bound hS hI)
  obtain ⟨hnd, hmem, _⟩ := sorted_facts m π ru order hwf.assigns_nodup hπ hord
  have hdef : ∀ x ∈ order, (m.rhsOf x).isSome := by
    intro x hx
    obtain ⟨a, ha, rfl⟩ := List.mem_map.mp ((hmem x).mp hx)
    exact rhsOf_isSome_of_mem m a.1 (List.mem_map.mpr ⟨a, keptAssigns_sub m ru a ha, rfl⟩)
  obtain ⟨order0, hord0, hLs, _, _, _⟩ := layout_fields m π L hL
  obtain ⟨hnd0, hmem0, _⟩ := sorted_facts m π false order0 hwf.assigns_nodup hπ hord0
  have hSperm : L.state.Perm m.stateNames := by rw [hLs]; exact states_of_order m hwf false order0 hnd0 hmem0
  have hSnd : L.state.Nodup := hSperm.nodup_iff.mpr hwf.states_nodup
  have hPre : PreC m (rlStore stiff delta) order (m.stateNames ++ initBoundScheme) :=
    rlStore_preC m hwf stiff delta hδ order _ (fun y hy => by simp [hy]) (fun y hy => by simp [hy])
  obtain ⟨b1, b2⟩ := body_structure3 m L (rlStore stiff delta) order _ hdef hPre
  -- every define of the program holds in `ρ`
  have hD : ∀ d ∈ defines (unpackStates L (fun _ => true) ++ unpackParams L (fun x => !ru || (mentioned m).contains x) ++
      unpackMissing L ++ bodySlots m L (rlStore stiff delta) order), ρ d.1 = eval N ρ d.2 := by
    intro d hd
    rw [defines_append, defines_append, defines_append, unpackStates_eq, unpackParams_eq, unpackMissing_eq,
      (unpackBlock_facts _ _ _ 0).2.1, (unpackBlock_facts _ _ _ 0).2.1, (unpackBlock_facts _ _ _ 0).2.1] at hd
    simp only [List.nil_append] at hd
    rcases b1 d hd with h | ⟨x, s, e, _, hs, he, hpre⟩
    · exact (hsol.2.2.2.2 d.1 d.2 (lookup_mem _ _ _ h)).1
    · -- a helper: `<x>_linearized = diff s e`
      unfold rlStore at hpre
      by_cases hc : (!stiff s || (diff s e).isZero) = true
      · simp [hc] at hpre
      · simp only [hc, Bool.false_eq_true, if_false, List.cons.injEq, Stmt.define.injEq, and_true] at hpre
        obtain ⟨h1, h2⟩ := hpre
        rw [← h1, ← h2]
        exact hlin x s e hs he
  intro i X hiX
  have hi : i < L.state.length := by
    rcases Nat.lt_or_ge i L.state.length with h | h
    · exact h
    · rw [List.getElem?_eq_none h] at hiX; cases hiX
  obtain ⟨e, hmem', hsome, hres⟩ := checkScheme_sound N m L inp t dt ρ _ s' hchk hsol hdt hD hx i hi
  rw [stores_append, stores_append, stores_append, unpackStates_eq, unpackParams_eq, unpackMissing_eq,
    (unpackBlock_facts _ _ _ 0).2.2.1, (unpackBlock_facts _ _ _ 0).2.2.1, (unpackBlock_facts _ _ _ 0).2.2.1] at hmem'
  simp only [List.nil_append] at hmem'
  obtain ⟨x, s, e', _, hs, he, hst⟩ := b2 (i, e) hmem'
  simp only [Prod.mk.injEq] at hst
  obtain ⟨hslot, hexpr⟩ := hst
  -- the slot of `s` is `i`, so `s = X`
  obtain ⟨d, hd, _, hds⟩ := (stateOfDeriv_facts m hwf.assigns_nodup).2.2 x s hs
  have hsm : s ∈ L.state := hSperm.mem_iff.mpr (hwf.derivs.mem_iff.mp (List.mem_map.mpr ⟨d, hd, hds⟩))
  obtain ⟨j, hj⟩ := slotOf_some_of_mem L.state s hsm
  rw [hj] at hslot
  simp only [Option.getD_some] at hslot
  subst hslot
  have hjs : L.state[i]? = some s := (C04.slotOf_iff L.state ((allDistinct_iff _).mpr hSnd) s i).mp hj
  rw [hiX] at hjs
  cases hjs
  subst hexpr
  exact ⟨x, e', hs, he, hsome, hres⟩

/-- `generalized_rush_larsen` (every state stiff) -/
theorem genGRL_correct {α} (N : Num α) (m : Model) (π : DepOrder) (ru : Bool) (L : Layout) (delta : Expr) (p : List Stmt)
    (inp : Inputs α) (t dt : α) (ρ : Env α) (s' : St α)
    (hwf : ModelWF m) (hcl : NoHelperClash m) (hπ : ∀ a ∈ m.assigns, ∀ y ∈ fv a.2, y ∈ π a.1 a.2)
    (hδ : fv delta = []) (hL : layout m π = some L) (hp : genGRL m π ru delta = some p)
    (hsol : Solution N m L inp t ρ) (hdt : ρ "dt" = some dt)
    (hlin : ∀ d X e, m.stateOfDeriv d = some X → m.rhsOf d = some e → ρ (linName d) = eval N ρ (diff X e))
    (hx : exec N inp (initScheme t dt) p = some s') :
    ∀ i X, L.state[i]? = some X → ∃ d e, m.stateOfDeriv d = some X ∧ m.rhsOf d = some e ∧
      (eval N ρ (rlStore (fun _ => true) delta X d e).2).isSome ∧
      s'.result i = eval N ρ (rlStore (fun _ => true) delta X d e).2 := by
  unfold genGRL at hp
  rw [hL] at hp
  cases hord : sortedAssignments m π ru with
  | none => simp [hord] at hp
  | some order =>
    simp only [hord, Option.bind_eq_bind, Option.bind_some, Option.pure_def, Option.some.injEq] at hp
    subst hp
    exact gen_rl_correct N m π ru L order _ delta inp t dt ρ s' hwf hcl hπ hδ hL hord hsol hdt hlin hx

/-- `hybrid_rush_larsen`, any stiff set -/
theorem genHybrid_correct {α} (N : Num α) (m : Model) (π : DepOrder) (ru : Bool) (L : Layout) (delta : Expr)
    (stiff : List Name) (p : List Stmt) (inp : Inputs α) (t dt : α) (ρ : Env α) (s' : St α)
    (hwf : ModelWF m) (hcl : NoHelperClash m) (hπ : ∀ a ∈ m.assigns, ∀ y ∈ fv a.2, y ∈ π a.1 a.2)
    (hδ : fv delta = []) (hL : layout m π = some L) (hp : genHybrid m π ru delta stiff = some p)
    (hsol : Solution N m L inp t ρ) (hdt : ρ "dt" = some dt)
    (hlin : ∀ d X e, m.stateOfDeriv d = some X → m.rhsOf d = some e → ρ (linName d) = eval N ρ (diff X e))
    (hx : exec N inp (initScheme t dt) p = some s') :
    ∀ i X, L.state[i]? = some X → ∃ d e, m.stateOfDeriv d = some X ∧ m.rhsOf d = some e ∧
      (eval N ρ (rlStore (fun s => stiff.contains s) delta X d e).2).isSome ∧
      s'.result i = eval N ρ (rlStore (fun s => stiff.contains s) delta X d e).2 := by
  unfold genHybrid at hp
  rw [hL] at hp
  cases hord : sortedAssignments m π ru with
  | none => simp [hord] at hp
  | some order =>
    simp only [hord, Option.bind_eq_bind, Option.bind_some, Option.pure_def, Option.some.injEq] at hp
    subst hp
    exact gen_rl_correct N m π ru L order _ delta inp t dt ρ s' hwf hcl hπ hδ hL hord hsol hdt hlin hx

/-- … spelled out for a stiff state whose linearisation is not syntactically zero: the slot holds
`x + (|g| > δ ? f/g·(exp(g·dt) − 1) : dt·f)` with `x` the state, `f` the specification's derivative
and `g` the value of the symbolic linearisation (`C06.rlFormula`). -/
theorem genGRL_formula {α} (N : Num α) (m : Model) (π : DepOrder) (ru : Bool) (L : Layout) (dm : Nat) (de : Int) (p : List Stmt)
    (inp : Inputs α) (t dt : α) (ρ : Env α) (s' : St α)
    (hwf : ModelWF m) (hcl : NoHelperClash m) (hπ : ∀ a ∈ m.assigns, ∀ y ∈ fv a.2, y ∈ π a.1 a.2)
    (hL : layout m π = some L) (hp : genGRL m π ru (.num dm de) = some p)
    (hsol : Solution N m L inp t ρ) (hdt : ρ "dt" = some dt)
    (hlin : ∀ d X e, m.stateOfDeriv d = some X → m.rhsOf d = some e → ρ (linName d) = eval N ρ (diff X e))
    (hx : exec N inp (initScheme t dt) p = some s')
    (i : Nat) (X : Name) (hiX : L.state[i]? = some X) :
    ∃ d e x f, m.stateOfDeriv d = some X ∧ m.rhsOf d = some e ∧ inp .states i = some x ∧ ρ d = some f ∧
      (((diff X e).isZero = true ∧ s'.result i = some (N.add x (N.mul dt f))) ∨
       ((diff X e).isZero = false ∧ ∃ g, eval N ρ (diff X e) = some g ∧
          s'.result i = some (C06.rlFormula N (N.lit dm de) x f g dt))) := by
  obtain ⟨d, e, hs, he, hsome, hres⟩ := genGRL_correct N m π ru L (.num dm de) p inp t dt ρ s' hwf hcl hπ rfl hL hp
    hsol hdt hlin hx i X hiX
  have hX : ρ X = inp .states i := hsol.1 i X hiX
  have hde : (d, e) ∈ m.assigns := lookup_mem _ _ _ he
  obtain ⟨hρd, hdsome⟩ := hsol.2.2.2.2 d e hde
  obtain ⟨f, hf⟩ := Option.isSome_iff_exists.mp hdsome
  by_cases hz : (diff X e).isZero = true
  · have hst : (rlStore (fun _ => true) (.num dm de) X d e) = ([], eulerStore X d) := C06.rlStore_zero _ _ X d e hz
    rw [hst] at hsome hres
    cases hρX : ρ X with
    | none => simp [eulerStore, eval, hρX] at hsome
    | some xv =>
      refine ⟨d, e, xv, f, hs, he, by rw [← hX, hρX], hf, Or.inl ⟨hz, ?_⟩⟩
      rw [hres]
      exact C05.eval_eulerStore N ρ X d xv dt f hρX hdt hf
  · have hz' : (diff X e).isZero = false := by simpa using hz
    have hst : (rlStore (fun _ => true) (.num dm de) X d e).2 = .add (.var X) (rlTerm d (.num dm de) true) := by
      simp [rlStore, hz']
    rw [hst] at hsome hres
    cases hρX : ρ X with
    | none => simp [eval, hρX] at hsome
    | some xv =>
      cases hg : ρ (linName d) with
      | none => simp [rlTerm, eval, hρX, hg] at hsome
      | some g =>
        refine ⟨d, e, xv, f, hs, he, by rw [← hX, hρX], hf, Or.inr ⟨hz', g, ?_, ?_⟩⟩
        · rw [← hlin d X e hs he, hg]
        · rw [hres]
          exact C06.eval_rl_store N ρ X d (.num dm de) xv f g dt (N.lit dm de) hρX hf hg hdt (by simp [eval])

/-! ### the hypothesis on the helpers can always be met -/

/-- `ρ` extended by the values of the linearisation helpers -/
def withLin {α} (N : Num α) (m : Model) (ρ : Env α) : Env α := fun n =>
  match m.assignNames.find? (fun d => linName d == n) with
  | some d =>
    match m.stateOfDeriv d, m.rhsOf d with
    | some X, some e => eval N ρ (diff X e)
    | _, _ => ρ n
  | none => ρ n

theorem withLin_other {α} (N : Num α) (m : Model) (ρ : Env α) (n : Name)
    (h : ∀ d, (m.stateOfDeriv d).isSome → linName d ≠ n) : withLin N m ρ n = ρ n := by
  unfold withLin
  cases hf : m.assignNames.find? (fun d => linName d == n) with
  | none => rfl
  | some d =>
    have hd : linName d = n := by simpa using List.find?_some hf
    cases hs : m.stateOfDeriv d with
    | none => simp only [hs]
    | some X => exact absurd hd (h d (by simp [hs]))

theorem withLin_lin {α} (N : Num α) (m : Model) (ρ : Env α) (d X : Name) (e : Expr)
    (hs : m.stateOfDeriv d = some X) (he : m.rhsOf d = some e) :
    withLin N m ρ (linName d) = eval N ρ (diff X e) := by
  unfold withLin
  have hmem : d ∈ m.assignNames := List.mem_map.mpr ⟨(d, e), lookup_mem _ _ _ he, rfl⟩
  cases hf : m.assignNames.find? (fun d' => linName d' == linName d) with
  | none =>
    have := List.find?_eq_none.mp hf d hmem
    simp at this
  | some d' =>
    have hd : linName d' = linName d := by simpa using List.find?_some hf
    have : d' = d := linName_inj d' d hd
    subst this
    simp only [hs, he]

/-- names a right-hand side can mention are not helpers -/
theorem mentioned_not_helper (m : Model) (hcl : NoHelperClash m) (hwf : ModelWF m) (a : Name × Expr) (ha : a ∈ m.assigns)
    (y : Name) (hy : y ∈ fv a.2) : ∀ d, (m.stateOfDeriv d).isSome → linName d ≠ y := by
  intro d hd heq
  obtain ⟨X, hX⟩ := Option.isSome_iff_exists.mp hd
  obtain ⟨d', hd', h1, _⟩ := (stateOfDeriv_facts m hwf.assigns_nodup).2.2 d X hX
  subst h1
  obtain ⟨c1, c2, c3, c4, c5⟩ := hcl.lin d' hd'
  rw [heq] at c1 c2 c3 c4 c5
  by_cases hm : y ∈ missingVariables m
  · exact c4 hm
  · have := (C13.missing_exact m y).not.mp hm
    apply this
    refine ⟨⟨a, ha, hy⟩, c1, c2, c3, ?_⟩
    intro ht
    exact c5 (by simp [initBoundScheme, ht])

/-- **every solution extends to one that binds the helpers**: the hypothesis `hlin` of the theorems
above is satisfiable for every solution of the model's equations. -/
theorem solution_withLin {α} (N : Num α) (m : Model) (π : DepOrder) (L : Layout) (inp : Inputs α) (t : α) (ρ : Env α)
    (hwf : ModelWF m) (hcl : NoHelperClash m) (hπ : ∀ a ∈ m.assigns, ∀ y ∈ fv a.2, y ∈ π a.1 a.2)
    (hL : layout m π = some L) (hsol : Solution N m L inp t ρ) :
    Solution N m L inp t (withLin N m ρ) ∧ withLin N m ρ "dt" = ρ "dt" ∧
    (∀ d X e, m.stateOfDeriv d = some X → m.rhsOf d = some e →
      withLin N m ρ (linName d) = eval N (withLin N m ρ) (diff X e)) := by
  obtain ⟨order0, hord0, hLs, hLp, _, hLm⟩ := layout_fields m π L hL
  obtain ⟨hnd0, hmem0, _⟩ := sorted_facts m π false order0 hwf.assigns_nodup hπ hord0
  have hSperm : L.state.Perm m.stateNames := by rw [hLs]; exact states_of_order m hwf false order0 hnd0 hmem0
  -- a derivative's helper is none of the model's names
  have hclash : ∀ d, (m.stateOfDeriv d).isSome → linName d ∉ m.stateNames ∧ linName d ∉ m.paramNames ∧
      linName d ∉ m.assignNames ∧ linName d ∉ missingVariables m ∧ linName d ∉ initBoundScheme := by
    intro d hd
    obtain ⟨X, hX⟩ := Option.isSome_iff_exists.mp hd
    obtain ⟨d', hd', h1, _⟩ := (stateOfDeriv_facts m hwf.assigns_nodup).2.2 d X hX
    subst h1
    exact hcl.lin d' hd'
  have hexpr : ∀ a ∈ m.assigns, eval N (withLin N m ρ) a.2 = eval N ρ a.2 := by
    intro a ha
    apply eval_congr
    intro y hy
    exact withLin_other N m ρ y (mentioned_not_helper m hcl hwf a ha y hy)
  refine ⟨⟨?_, ?_, ?_, ?_, ?_⟩, ?_, ?_⟩
  · intro i x hix
    have hx : x ∈ m.stateNames := hSperm.mem_iff.mp (List.mem_of_getElem? hix)
    rw [withLin_other N m ρ x (fun d hd h => (hclash d hd).1 (h ▸ hx))]
    exact hsol.1 i x hix
  · intro i x hix
    have hx : x ∈ m.paramNames := by rw [← hLp]; exact List.mem_of_getElem? hix
    rw [withLin_other N m ρ x (fun d hd h => (hclash d hd).2.1 (h ▸ hx))]
    exact hsol.2.1 i x hix
  · intro i x hix
    have hx : x ∈ missingVariables m := by rw [← hLm]; exact List.mem_of_getElem? hix
    rw [withLin_other N m ρ x (fun d hd h => (hclash d hd).2.2.2.1 (h ▸ hx))]
    exact hsol.2.2.1 i x hix
  · intro x hx
    rw [withLin_other N m ρ x (fun d hd h => (hclash d hd).2.2.2.2 (by rw [h]; simp [initBoundScheme, hx]))]
    exact hsol.2.2.2.1 x hx
  · intro x e hxe
    have hx : x ∈ m.assignNames := List.mem_map.mpr ⟨(x, e), hxe, rfl⟩
    rw [withLin_other N m ρ x (fun d hd h => (hclash d hd).2.2.1 (h ▸ hx)), hexpr (x, e) hxe]
    exact hsol.2.2.2.2 x e hxe
  · exact withLin_other N m ρ "dt" (fun d hd h => (hclash d hd).2.2.2.2 (by rw [h]; simp [initBoundScheme]))
  · intro d X e hs he
    rw [withLin_lin N m ρ d X e hs he]
    apply eval_congr
    intro y hy
    have hy' : y ∈ fv e := DiffFv.sub_diff X e y hy
    exact (withLin_other N m ρ y (mentioned_not_helper m hcl hwf (d, e) (lookup_mem _ _ _ he) y hy')).symm

/-! ### consequences: removal invariance (C12) and the hybrid scheme by value (C07) -/

/-- **C12 for explicit Euler on the `Impl` layer**: the programs generated with and without
unused-variable removal write the same value into every state slot. -/
theorem genEuler_removal_invariant {α} (N : Num α) (m : Model) (π : DepOrder) (L : Layout) (p0 p1 : List Stmt)
    (inp : Inputs α) (t dt : α) (ρ : Env α) (s0 s1 : St α)
    (hwf : ModelWF m) (hπ : ∀ a ∈ m.assigns, ∀ y ∈ fv a.2, y ∈ π a.1 a.2)
    (hdtn : "dt" ∉ m.stateNames ∧ "dt" ∉ m.paramNames ∧ "dt" ∉ m.assignNames ∧ "dt" ∉ missingVariables m)
    (hL : layout m π = some L) (hp0 : genEuler m π false = some p0) (hp1 : genEuler m π true = some p1)
    (hsol : Solution N m L inp t ρ) (hdt : ρ "dt" = some dt)
    (hx0 : exec N inp (initScheme t dt) p0 = some s0) (hx1 : exec N inp (initScheme t dt) p1 = some s1) :
    ∀ i X, L.state[i]? = some X → s0.result i = s1.result i := by
  intro i X hiX
  obtain ⟨d0, x0, f0, hd0, hx0', hf0, hr0⟩ := genEuler_correct N m π false L p0 inp t dt ρ s0 hwf hπ hdtn hL hp0 hsol hdt hx0 i X hiX
  obtain ⟨d1, x1, f1, hd1, hx1', hf1, hr1⟩ := genEuler_correct N m π true L p1 inp t dt ρ s1 hwf hπ hdtn hL hp1 hsol hdt hx1 i X hiX
  have hd : d0 = d1 := derivsFunctional m hwf d0 d1 X hd0 hd1
  subst hd
  rw [hx0'] at hx1'
  rw [hf0] at hf1
  cases hx1'; cases hf1
  rw [hr0, hr1]

/-- **C12 for the Rush–Larsen programs on the `Impl` layer** -/
theorem genGRL_removal_invariant {α} (N : Num α) (m : Model) (π : DepOrder) (L : Layout) (delta : Expr) (p0 p1 : List Stmt)
    (inp : Inputs α) (t dt : α) (ρ : Env α) (s0 s1 : St α)
    (hwf : ModelWF m) (hcl : NoHelperClash m) (hπ : ∀ a ∈ m.assigns, ∀ y ∈ fv a.2, y ∈ π a.1 a.2)
    (hδ : fv delta = []) (hL : layout m π = some L)
    (hp0 : genGRL m π false delta = some p0) (hp1 : genGRL m π true delta = some p1)
    (hsol : Solution N m L inp t ρ) (hdt : ρ "dt" = some dt)
    (hlin : ∀ d X e, m.stateOfDeriv d = some X → m.rhsOf d = some e → ρ (linName d) = eval N ρ (diff X e))
    (hx0 : exec N inp (initScheme t dt) p0 = some s0) (hx1 : exec N inp (initScheme t dt) p1 = some s1) :
    ∀ i X, L.state[i]? = some X → s0.result i = s1.result i := by
  intro i X hiX
  obtain ⟨d0, e0, hd0, he0, _, hr0⟩ := genGRL_correct N m π false L delta p0 inp t dt ρ s0 hwf hcl hπ hδ hL hp0 hsol hdt hlin hx0 i X hiX
  obtain ⟨d1, e1, hd1, he1, _, hr1⟩ := genGRL_correct N m π true L delta p1 inp t dt ρ s1 hwf hcl hπ hδ hL hp1 hsol hdt hlin hx1 i X hiX
  have hd : d0 = d1 := derivsFunctional m hwf d0 d1 X hd0 hd1
  subst hd
  rw [he0] at he1
  cases he1
  rw [hr0, hr1]

theorem genHybrid_removal_invariant {α} (N : Num α) (m : Model) (π : DepOrder) (L : Layout) (delta : Expr)
    (stiff : List Name) (p0 p1 : List Stmt) (inp : Inputs α) (t dt : α) (ρ : Env α) (s0 s1 : St α)
    (hwf : ModelWF m) (hcl : NoHelperClash m) (hπ : ∀ a ∈ m.assigns, ∀ y ∈ fv a.2, y ∈ π a.1 a.2)
    (hδ : fv delta = []) (hL : layout m π = some L)
    (hp0 : genHybrid m π false delta stiff = some p0) (hp1 : genHybrid m π true delta stiff = some p1)
    (hsol : Solution N m L inp t ρ) (hdt : ρ "dt" = some dt)
    (hlin : ∀ d X e, m.stateOfDeriv d = some X → m.rhsOf d = some e → ρ (linName d) = eval N ρ (diff X e))
    (hx0 : exec N inp (initScheme t dt) p0 = some s0) (hx1 : exec N inp (initScheme t dt) p1 = some s1) :
    ∀ i X, L.state[i]? = some X → s0.result i = s1.result i := by
  intro i X hiX
  obtain ⟨d0, e0, hd0, he0, _, hr0⟩ := genHybrid_correct N m π false L delta stiff p0 inp t dt ρ s0 hwf hcl hπ hδ hL hp0 hsol hdt hlin hx0 i X hiX
  obtain ⟨d1, e1, hd1, he1, _, hr1⟩ := genHybrid_correct N m π true L delta stiff p1 inp t dt ρ s1 hwf hcl hπ hδ hL hp1 hsol hdt hlin hx1 i X hiX
  have hd : d0 = d1 := derivsFunctional m hwf d0 d1 X hd0 hd1
  subst hd
  rw [he0] at he1
  cases he1
  rw [hr0, hr1]

/-- **C07 on the `Impl` layer, by value**: with every state stiff the hybrid program writes what the
generalized Rush–Larsen program writes; with no state stiff it writes the Euler step. -/
theorem genHybrid_all_value {α} (N : Num α) (m : Model) (π : DepOrder) (ru : Bool) (L : Layout) (delta : Expr)
    (stiff : List Name) (ph pg : List Stmt) (inp : Inputs α) (t dt : α) (ρ : Env α) (sh sg : St α)
    (hwf : ModelWF m) (hcl : NoHelperClash m) (hπ : ∀ a ∈ m.assigns, ∀ y ∈ fv a.2, y ∈ π a.1 a.2)
    (hδ : fv delta = []) (hL : layout m π = some L)
    (hall : ∀ s ∈ m.stateNames, s ∈ stiff)
    (hph : genHybrid m π ru delta stiff = some ph) (hpg : genGRL m π ru delta = some pg)
    (hsol : Solution N m L inp t ρ) (hdt : ρ "dt" = some dt)
    (hlin : ∀ d X e, m.stateOfDeriv d = some X → m.rhsOf d = some e → ρ (linName d) = eval N ρ (diff X e))
    (hxh : exec N inp (initScheme t dt) ph = some sh) (hxg : exec N inp (initScheme t dt) pg = some sg) :
    ∀ i X, L.state[i]? = some X → sh.result i = sg.result i := by
  intro i X hiX
  obtain ⟨d0, e0, hd0, he0, _, hr0⟩ := genHybrid_correct N m π ru L delta stiff ph inp t dt ρ sh hwf hcl hπ hδ hL hph hsol hdt hlin hxh i X hiX
  obtain ⟨d1, e1, hd1, he1, _, hr1⟩ := genGRL_correct N m π ru L delta pg inp t dt ρ sg hwf hcl hπ hδ hL hpg hsol hdt hlin hxg i X hiX
  have hd : d0 = d1 := derivsFunctional m hwf d0 d1 X hd0 hd1
  subst hd
  rw [he0] at he1
  cases he1
  obtain ⟨d', hd', _, hds⟩ := (stateOfDeriv_facts m hwf.assigns_nodup).2.2 d0 X hd0
  have hXs : X ∈ m.stateNames := hwf.derivs.mem_iff.mp (List.mem_map.mpr ⟨d', hd', hds⟩)
  have hst : X ∈ stiff := hall X hXs
  have : rlStore (fun s => stiff.contains s) delta X d0 e0 = rlStore (fun _ => true) delta X d0 e0 := by
    simp [rlStore, hst]
  rw [hr0, hr1, this]

/-- … and with no state stiff it writes the explicit Euler step -/
theorem genHybrid_none_value {α} (N : Num α) (m : Model) (π : DepOrder) (ru : Bool) (L : Layout) (delta : Expr)
    (stiff : List Name) (ph pe : List Stmt) (inp : Inputs α) (t dt : α) (ρ : Env α) (sh se : St α)
    (hwf : ModelWF m) (hcl : NoHelperClash m) (hπ : ∀ a ∈ m.assigns, ∀ y ∈ fv a.2, y ∈ π a.1 a.2)
    (hδ : fv delta = []) (hL : layout m π = some L)
    (hnone : ∀ s ∈ m.stateNames, s ∉ stiff)
    (hph : genHybrid m π ru delta stiff = some ph) (hpe : genEuler m π ru = some pe)
    (hsol : Solution N m L inp t ρ) (hdt : ρ "dt" = some dt)
    (hlin : ∀ d X e, m.stateOfDeriv d = some X → m.rhsOf d = some e → ρ (linName d) = eval N ρ (diff X e))
    (hxh : exec N inp (initScheme t dt) ph = some sh) (hxe : exec N inp (initScheme t dt) pe = some se) :
    ∀ i X, L.state[i]? = some X → sh.result i = se.result i := by
  intro i X hiX
  obtain ⟨d0, e0, hd0, he0, _, hr0⟩ := genHybrid_correct N m π ru L delta stiff ph inp t dt ρ sh hwf hcl hπ hδ hL hph hsol hdt hlin hxh i X hiX
  obtain ⟨d1, x, f, hd1, hx, hf, hr1⟩ := genEuler_correct N m π ru L pe inp t dt ρ se hwf hπ hcl.dt hL hpe hsol hdt hxe i X hiX
  have hd : d0 = d1 := derivsFunctional m hwf d0 d1 X hd0 hd1
  subst hd
  obtain ⟨d', hd', _, hds⟩ := (stateOfDeriv_facts m hwf.assigns_nodup).2.2 d0 X hd0
  have hXs : X ∈ m.stateNames := hwf.derivs.mem_iff.mp (List.mem_map.mpr ⟨d', hd', hds⟩)
  have hst : X ∉ stiff := hnone X hXs
  have : rlStore (fun s => stiff.contains s) delta X d0 e0 = ([], eulerStore X d0) := by
    simp [rlStore, hst]
  rw [hr0, hr1, this]
  exact C05.eval_eulerStore N ρ X d0 x dt f (by rw [hsol.1 i X hiX, hx]) hdt hf

end SchemeEndToEnd
end Gx
