import GotranxProofs.Properties.C08
/-!
# The duplicate test accepts exactly the pairwise-consistent texts

`C08.seqCheck_pairwise` says that a text which passes the sequential duplicate test of
`TreeToODE.ode` has no name with two differing definitions.  This file proves the converse
(`seqCheck_complete`), hence a characterisation (`seqCheck_iff`) in which the order of the atoms
does not occur — so the verdict of the duplicate test is the same for every permutation of the
text (`seqCheck_perm`), which is the part of C10 that concerns acceptance.
-/
namespace Gx.C08

theorem seqCheck_complete : ∀ (rest defined : List RawAtom),
    (∀ a ∈ rest, ∀ p ∈ defined, p.name = a.name → sameDefinition p a = true) →
    (∀ a ∈ rest, ∀ b ∈ rest, a.name = b.name → sameDefinition a b = true) →
    seqCheck defined rest = true := by
  intro rest
  induction rest with
  | nil => intros; rfl
  | cons a rest ih =>
    intro d h1 h2
    simp only [seqCheck]
    cases hf : d.find? (·.name == a.name) with
    | none =>
      simp only
      apply ih
      · intro x hx p hp hpn
        simp only [List.mem_cons] at hp
        rcases hp with rfl | hp
        · exact h2 _ (by simp) x (by simp [hx]) hpn
        · exact h1 x (by simp [hx]) p hp hpn
      · intro x hx y hy hxy
        exact h2 x (by simp [hx]) y (by simp [hy]) hxy
    | some prev =>
      obtain ⟨hprev_mem, hprev_name⟩ := find_name d a.name prev hf
      simp only [Bool.and_eq_true]
      refine ⟨h1 a (by simp) prev hprev_mem hprev_name, ?_⟩
      apply ih
      · intro x hx p hp hpn
        simp only [List.mem_cons, List.mem_filter] at hp
        rcases hp with rfl | hp
        · exact h2 _ (by simp) x (by simp [hx]) hpn
        · exact h1 x (by simp [hx]) p hp.1 hpn
      · intro x hx y hy hxy
        exact h2 x (by simp [hx]) y (by simp [hy]) hxy

/-- **the duplicate test, order-free**: a text passes iff any two atoms with the same name are the
same definition -/
theorem seqCheck_iff (atoms : List RawAtom) :
    seqCheck [] atoms = true ↔ ∀ a ∈ atoms, ∀ b ∈ atoms, a.name = b.name → sameDefinition a b = true :=
  ⟨seqCheck_pairwise atoms, fun h => seqCheck_complete atoms [] (by intro a _ p hp; simp at hp) h⟩

/-- … so its verdict does not depend on the order of the atoms -/
theorem seqCheck_perm (l₁ l₂ : List RawAtom) (h : l₁.Perm l₂) : seqCheck [] l₁ = seqCheck [] l₂ := by
  have key : ∀ l₁ l₂ : List RawAtom, l₁.Perm l₂ → seqCheck [] l₁ = true → seqCheck [] l₂ = true := by
    intro l₁ l₂ hp h1
    rw [seqCheck_iff] at h1 ⊢
    intro a ha b hb
    exact h1 a (hp.mem_iff.mpr ha) b (hp.mem_iff.mpr hb)
  cases h1 : seqCheck [] l₁ with
  | true => exact (key l₁ l₂ h h1).symm
  | false =>
    cases h2 : seqCheck [] l₂ with
    | false => rfl
    | true => rw [key l₂ l₁ h.symm h2] at h1; cases h1

/-- the test also ignores repetitions: stating an atom twice changes nothing -/
theorem seqCheck_dup (a : RawAtom) (l : List RawAtom) : seqCheck [] (a :: a :: l) = seqCheck [] (a :: l) := by
  have key : seqCheck [] (a :: a :: l) = true ↔ seqCheck [] (a :: l) = true := by
    rw [seqCheck_iff, seqCheck_iff]
    constructor
    · intro h x hx y hy
      exact h x (List.mem_cons_of_mem _ hx) y (List.mem_cons_of_mem _ hy)
    · intro h x hx y hy
      have hx' : x ∈ a :: l := by
        simp only [List.mem_cons] at hx ⊢
        rcases hx with h | h | h
        · exact Or.inl h
        · exact Or.inl h
        · exact Or.inr h
      have hy' : y ∈ a :: l := by
        simp only [List.mem_cons] at hy ⊢
        rcases hy with h | h | h
        · exact Or.inl h
        · exact Or.inl h
        · exact Or.inr h
      exact h x hx' y hy'
  cases h1 : seqCheck [] (a :: a :: l) <;> cases h2 : seqCheck [] (a :: l) <;> simp_all

end Gx.C08
