import GotranxModel
/-!
# `sortByName` (Python's `sorted(..., key=name)`): permutation, sortedness, canonicity
-/
namespace Gx

theorem str_le_of_lt {a b : String} (h : a < b) : a ≤ b := Std.le_of_not_ge fun a => a h

theorem insertSorted_perm {β} (key : β → Name) (x : β) (l : List β) :
    (insertSorted key x l).Perm (x :: l) := by
  induction l with
  | nil => simp [insertSorted]
  | cons y rest ih =>
    simp only [insertSorted]
    split
    · exact List.Perm.refl _
    · exact (List.Perm.cons y ih).trans (List.Perm.swap x y rest)

theorem insertSorted_sorted {β} (key : β → Name) (x : β) (l : List β)
    (h : l.Pairwise (fun a b => key a ≤ key b)) :
    (insertSorted key x l).Pairwise (fun a b => key a ≤ key b) := by
  induction l with
  | nil => simp [insertSorted]
  | cons y rest ih =>
    simp only [insertSorted]
    have hy := List.pairwise_cons.mp h
    split
    · rename_i hlt
      refine List.pairwise_cons.mpr ⟨?_, h⟩
      intro z hz
      simp only [List.mem_cons] at hz
      rcases hz with rfl | hz
      · exact str_le_of_lt hlt
      · exact String.le_trans (str_le_of_lt hlt) (hy.1 z hz)
    · rename_i hnlt
      have hyx : key y ≤ key x := String.not_lt.mp hnlt
      refine List.pairwise_cons.mpr ⟨?_, ih hy.2⟩
      intro z hz
      have := (insertSorted_perm key x rest).mem_iff.mp hz
      simp only [List.mem_cons] at this
      rcases this with rfl | hz'
      · exact hyx
      · exact hy.1 z hz'

theorem sortByName_aux {β} (key : β → Name) (l acc : List β)
    (hacc : acc.Pairwise (fun a b => key a ≤ key b)) :
    (l.foldl (fun acc x => insertSorted key x acc) acc).Perm (l ++ acc) ∧
    (l.foldl (fun acc x => insertSorted key x acc) acc).Pairwise (fun a b => key a ≤ key b) := by
  induction l generalizing acc with
  | nil => exact ⟨by simp, hacc⟩
  | cons x rest ih =>
    simp only [List.foldl_cons]
    obtain ⟨hp, hs⟩ := ih (insertSorted key x acc) (insertSorted_sorted key x acc hacc)
    refine ⟨hp.trans ?_, hs⟩
    have h1 : (rest ++ insertSorted key x acc).Perm (rest ++ x :: acc) :=
      List.Perm.append_left rest (insertSorted_perm key x acc)
    exact h1.trans (by simp)

theorem sortByName_perm {β} (key : β → Name) (l : List β) : (sortByName key l).Perm l := by
  have := (sortByName_aux key l [] List.Pairwise.nil).1
  simpa [sortByName] using this

theorem sortByName_sorted {β} (key : β → Name) (l : List β) :
    (sortByName key l).Pairwise (fun a b => key a ≤ key b) :=
  (sortByName_aux key l [] List.Pairwise.nil).2

/-- a name-sorted list is determined by its multiset of names -/
theorem sortNames_perm (l₁ l₂ : List Name) (h : l₁.Perm l₂) : Impl.sortNames l₁ = Impl.sortNames l₂ := by
  unfold Impl.sortNames
  have hperm : (sortByName id l₁).Perm (sortByName id l₂) :=
    (sortByName_perm id l₁).trans (h.trans (sortByName_perm id l₂).symm)
  refine List.Perm.eq_of_pairwise (le := fun a b => a ≤ b) ?_ (sortByName_sorted id l₁) (sortByName_sorted id l₂) hperm
  intro a b _ _ hab hba
  exact String.le_antisymm hab hba

end Gx
