import GotranxProofs.Validate
/-!
# The equational specification is a function on acyclic models

`Solution` says "every intermediate stands for its defining expression" as equations.  For a
model whose definitions are acyclic (`Ranked`: every assignment only mentions assigned names of
smaller rank) two environments that satisfy the equations and agree on the inputs agree on every
assigned name (uniqueness), and bounded unfolding `denote` stabilises and satisfies the equations
(existence): the reference meaning of a model is well defined, whatever the nesting depth or
dependency shape.
-/
namespace Gx

/-- the equations of the model hold in `ρ` -/
def Equations {α} (N : Num α) (m : Model) (ρ : Env α) : Prop :=
  ∀ x e, (x, e) ∈ m.assigns → ρ x = eval N ρ e

/-- **Uniqueness.** -/
theorem solution_unique {α} (N : Num α) (m : Model) (rank : Name → Nat) (hr : Ranked m rank)
    (ρ ρ' : Env α) (h1 : Equations N m ρ) (h2 : Equations N m ρ')
    (hb : ∀ y, m.rhsOf y = none → ρ y = ρ' y) :
    ∀ x, (m.rhsOf x).isSome → ρ x = ρ' x := by
  have key : ∀ n x, rank x ≤ n → (m.rhsOf x).isSome → ρ x = ρ' x := by
    intro n
    induction n with
    | zero =>
      intro x hx hs
      obtain ⟨e, he⟩ := Option.isSome_iff_exists.mp hs
      have hmem := lookup_mem _ _ _ he
      rw [h1 x e hmem, h2 x e hmem]
      apply eval_congr
      intro y hy
      cases hy' : m.rhsOf y with
      | none => exact hb y hy'
      | some ey =>
        have := hr x e hmem y hy (by simp [hy'])
        omega
    | succ n ih =>
      intro x hx hs
      obtain ⟨e, he⟩ := Option.isSome_iff_exists.mp hs
      have hmem := lookup_mem _ _ _ he
      rw [h1 x e hmem, h2 x e hmem]
      apply eval_congr
      intro y hy
      cases hy' : m.rhsOf y with
      | none => exact hb y hy'
      | some ey =>
        have hlt := hr x e hmem y hy (by simp [hy'])
        exact ih y (by omega) (by simp [hy'])
  intro x hs
  exact key (rank x) x (Nat.le_refl _) hs

/-- two `Solution`s for the same inputs agree on every assigned name, provided every name an
assignment mentions is an assignment or an input of the layout -/
theorem solution_unique' {α} (N : Num α) (m : Model) (L : Layout) (inp : Inputs α) (t : α)
    (rank : Name → Nat) (hr : Ranked m rank) (ρ ρ' : Env α)
    (h1 : Solution N m L inp t ρ) (h2 : Solution N m L inp t ρ')
    (hclosed : ∀ a ∈ m.assigns, ∀ y ∈ fv a.2, (m.rhsOf y).isSome ∨ y ∈ timeNames ∨ y ∈ L.state ∨ y ∈ L.param ∨ y ∈ L.missing) :
    ∀ x, (m.rhsOf x).isSome → ρ x = ρ' x := by
  -- restrict attention to the names that matter: define ρ'' that equals ρ' on inputs/assigned and ρ elsewhere
  have hin : ∀ y, (y ∈ timeNames ∨ y ∈ L.state ∨ y ∈ L.param ∨ y ∈ L.missing) → ρ y = ρ' y := by
    intro y hy
    rcases hy with hy | hy | hy | hy
    · rw [h1.2.2.2.1 y hy, h2.2.2.2.1 y hy]
    · obtain ⟨i, hi⟩ := List.getElem?_of_mem hy
      rw [h1.1 i y hi, h2.1 i y hi]
    · obtain ⟨i, hi⟩ := List.getElem?_of_mem hy
      rw [h1.2.1 i y hi, h2.2.1 i y hi]
    · obtain ⟨i, hi⟩ := List.getElem?_of_mem hy
      rw [h1.2.2.1 i y hi, h2.2.2.1 i y hi]
  have key : ∀ n x, rank x ≤ n → (m.rhsOf x).isSome → ρ x = ρ' x := by
    intro n
    induction n with
    | zero =>
      intro x _ hs
      obtain ⟨e, he⟩ := Option.isSome_iff_exists.mp hs
      have hmem := lookup_mem _ _ _ he
      rw [(h1.2.2.2.2 x e hmem).1, (h2.2.2.2.2 x e hmem).1]
      apply eval_congr
      intro y hy
      rcases hclosed (x, e) hmem y hy with hy' | hy'
      · have := hr x e hmem y hy hy'; omega
      · exact hin y hy'
    | succ n ih =>
      intro x hx hs
      obtain ⟨e, he⟩ := Option.isSome_iff_exists.mp hs
      have hmem := lookup_mem _ _ _ he
      rw [(h1.2.2.2.2 x e hmem).1, (h2.2.2.2.2 x e hmem).1]
      apply eval_congr
      intro y hy
      rcases hclosed (x, e) hmem y hy with hy' | hy'
      · have hlt := hr x e hmem y hy hy'
        exact ih y (by omega) hy'
      · exact hin y hy'
  intro x hs
  exact key (rank x) x (Nat.le_refl _) hs

/-- bounded unfolding stabilises once the fuel exceeds the rank -/
theorem denote_stable {α} (N : Num α) (m : Model) (base : Env α) (rank : Name → Nat) (hr : Ranked m rank) :
    ∀ n x, rank x < n → denote N m base (n + 2) x = denote N m base (n + 1) x := by
  intro n
  induction n with
  | zero => intro x hx; omega
  | succ n ih =>
    intro x hx
    show denote N m base (n + 2 + 1) x = denote N m base (n + 1 + 1) x
    unfold denote
    cases he : m.rhsOf x with
    | none => rfl
    | some e =>
      simp only
      apply eval_congr
      intro y hy
      have hmem := lookup_mem _ _ _ he
      cases hy' : m.rhsOf y with
      | none => simp [denote, hy']
      | some ey =>
        have hlt := hr x e hmem y hy (by simp [hy'])
        exact ih y (by omega)

/-- **Existence.** With enough fuel the bounded unfolding satisfies every equation of the model:
`denote` *is* the solution (and by `solution_unique` the only one). -/
theorem denote_equations {α} (N : Num α) (m : Model) (base : Env α) (rank : Name → Nat) (hr : Ranked m rank)
    (hfun : ∀ x e, (x, e) ∈ m.assigns → m.rhsOf x = some e) (n : Nat) (hn : ∀ a ∈ m.assigns, rank a.1 < n) :
    Equations N m (denote N m base (n + 1)) := by
  intro x e hmem
  have hx := hn (x, e) hmem
  rw [← denote_stable N m base rank hr n x hx]
  show denote N m base (n + 1 + 1) x = _
  unfold denote
  rw [hfun x e hmem]

end Gx
