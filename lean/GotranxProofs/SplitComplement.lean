import GotranxProofs.SplitLoader
namespace Gx
namespace SplitEndToEnd
open Impl GenValid

/-- **the two parts of a split are complementary**: in a model without missing variables of its own, every name one
part asks for (its missing variables) is a state, a parameter or an assignment of the other part — so the other part's
`missing_values` program can supply it (`hdefd` of `split_missing_correct`), and the list of requested names has no
repetition. -/
theorem missing_defined_in_other (m : Model) (keep : Name → Bool) (hm : missingVariables m = []) :
    (missingVariables (restrict m (fun n => !keep n))).Nodup ∧
    ∀ x ∈ missingVariables (restrict m (fun n => !keep n)),
      x ∈ (restrict m keep).stateNames ∨ x ∈ (restrict m keep).paramNames ∨ x ∈ (restrict m keep).assignNames := by
  refine ⟨missing_nodup _, ?_⟩
  intro x hx
  obtain ⟨⟨a, ha, hxa⟩, h1, h2, h3, h4⟩ := (C13.missing_exact _ x).mp hx
  have ham : a ∈ m.assigns := C13.restrict_assigns m _ a ha
  -- `x` is mentioned by the full model and is not missing there: it is one of its names
  have hfull : x ∈ m.stateNames ∨ x ∈ m.paramNames ∨ x ∈ m.assignNames := by
    by_cases hs : x ∈ m.stateNames
    · exact Or.inl hs
    by_cases hp : x ∈ m.paramNames
    · exact Or.inr (Or.inl hp)
    by_cases hass : x ∈ m.assignNames
    · exact Or.inr (Or.inr hass)
    have : x ∈ missingVariables m := (C13.missing_exact m x).mpr ⟨⟨a, ham, hxa⟩, hs, hp, hass, h4⟩
    rw [hm] at this
    simp at this
  obtain ⟨es, ep, ea⟩ := restrict_names m keep
  obtain ⟨es', ep', ea'⟩ := restrict_names m (fun n => !keep n)
  rw [es'] at h1; rw [ep'] at h2; rw [ea'] at h3
  rw [es, ep, ea]
  simp only [List.mem_filter, Bool.not_eq_true', not_and, Bool.not_eq_false] at h1 h2 h3 ⊢
  rcases hfull with h | h | h
  · exact Or.inl ⟨h, h1 h⟩
  · exact Or.inr (Or.inl ⟨h, h2 h⟩)
  · exact Or.inr (Or.inr ⟨h, h3 h⟩)

/-- **the exchange between the two parts**: what one part's `missing_values` program hands over, for exactly the names
the other part is missing, are the values a solution of the full model gives to those names. -/
theorem split_exchange {α} (N : Num α) (m : Model) (keep : Name → Bool) (π : DepOrder)
    (L L' : Layout) (p : List Stmt) (inp inp' : Inputs α) (t : α) (ρ : Env α) (s' : St α)
    (hwf : ModelWF m) (hc : Closed m keep) (hm : missingVariables m = [])
    (hπ : ∀ a ∈ m.assigns, ∀ y ∈ fv a.2, y ∈ π a.1 a.2)
    (hL' : layout (restrict m keep) π = some L')
    (hp : genMissing (restrict m keep) π (missingVariables (restrict m (fun n => !keep n))) = some p)
    (hsol : Solution N m L inp t ρ)
    (hs : ∀ i x, L'.state[i]? = some x → ρ x = inp' .states i)
    (hpar : ∀ i x, L'.param[i]? = some x → ρ x = inp' .params i)
    (hmis : ∀ i x, L'.missing[i]? = some x → ρ x = inp' .missing i)
    (hx : exec N inp' (initRhs t) p = some s') :
    ∀ i x, (missingVariables (restrict m (fun n => !keep n)))[i]? = some x → (ρ x).isSome ∧ s'.result i = ρ x := by
  obtain ⟨hnd, hdefd⟩ := missing_defined_in_other m keep hm
  exact split_missing_correct N m keep π _ L L' p inp inp' t ρ s' hwf hc hπ hnd hdefd hL' hp hsol hs hpar hmis hx

end SplitEndToEnd
end Gx
