import GotranxProofs.GenValidMissing
import GotranxProofs.Properties.C13
/-!
# A component split reproduces the full model (C13 on the `Impl` layer)

`restrict_wf`: the restriction of a well-formed model to a set of names that keeps a derivative exactly when it keeps its
state is well formed.  `split_rhs_correct` / `split_missing_correct`: feed the `rhs` / `missing_values` program generated for
such a part with the values a solution `ρ` of the *full* model gives to the part's states, parameters and missing
variables — the program returns the values `ρ` gives to the part's derivatives / to the requested names.
-/
namespace Gx
namespace SplitEndToEnd
open Impl Kahn GenValid

/-- a selection of names that keeps a derivative exactly when it keeps its state (what a split by
components does: `compOf` pairs them inside every component) -/
def Closed (m : Model) (keep : Name → Bool) : Prop := ∀ d ∈ m.derivs, keep d.1 = keep d.2.1

theorem restrict_names (m : Model) (keep : Name → Bool) :
    (restrict m keep).stateNames = m.stateNames.filter keep ∧
    (restrict m keep).paramNames = m.paramNames.filter keep ∧
    (restrict m keep).assignNames = m.assignNames.filter keep := by
  refine ⟨?_, ?_, ?_⟩
  · simp [restrict, Model.stateNames, List.filter_map, Function.comp_def]
  · simp [restrict, Model.paramNames, List.filter_map, Function.comp_def]
  · simp [restrict, Model.assignNames, Model.assigns, List.filter_map, List.filter_append, Function.comp_def]

/-- **a closed restriction of a well-formed model is well formed** -/
theorem restrict_wf (m : Model) (keep : Name → Bool) (hwf : ModelWF m) (hc : Closed m keep) :
    ModelWF (restrict m keep) := by
  obtain ⟨hs, hp, ha⟩ := restrict_names m keep
  refine ⟨?_, ?_, ?_, ?_, ?_, ?_, ?_, ?_⟩
  · rw [ha]; exact List.Nodup.sublist List.filter_sublist hwf.assigns_nodup
  · rw [hs]; exact List.Nodup.sublist List.filter_sublist hwf.states_nodup
  · rw [hp]; exact List.Nodup.sublist List.filter_sublist hwf.params_nodup
  · intro x hx hx'
    rw [hs] at hx; rw [hp] at hx'
    exact hwf.sp x (List.mem_filter.mp hx).1 (List.mem_filter.mp hx').1
  · intro x hx hx'
    rw [hs] at hx; rw [ha] at hx'
    exact hwf.sa x (List.mem_filter.mp hx).1 (List.mem_filter.mp hx').1
  · intro x hx hx'
    rw [hp] at hx; rw [ha] at hx'
    exact hwf.pa x (List.mem_filter.mp hx).1 (List.mem_filter.mp hx').1
  · intro x hx
    obtain ⟨t1, t2, t3⟩ := hwf.time x hx
    rw [hs, hp, ha]
    exact ⟨fun h => t1 (List.mem_filter.mp h).1, fun h => t2 (List.mem_filter.mp h).1, fun h => t3 (List.mem_filter.mp h).1⟩
  · rw [hs]
    have : (restrict m keep).derivs.map (·.2.1) = (m.derivs.map (·.2.1)).filter keep := by
      simp only [restrict, List.filter_map, Function.comp_def]
      congr 1
      apply List.filter_congr
      intro d hd
      exact hc d hd
    rw [this]
    exact hwf.derivs.filter keep

/-- **C13 on the `Impl` layer: a part reproduces the full model.**  Let `ρ` solve the full model.  Feed the
`rhs` program generated for a closed restriction with the values `ρ` gives to its states, parameters and
missing variables: slot `i` then holds the value `ρ` gives to the derivative of the part's `i`-th state. -/
theorem split_rhs_correct {α} (N : Num α) (m : Model) (keep : Name → Bool) (π : DepOrder) (ru : Bool)
    (L L' : Layout) (p : List Stmt) (inp inp' : Inputs α) (t : α) (ρ : Env α) (s' : St α)
    (hwf : ModelWF m) (hc : Closed m keep) (hπ : ∀ a ∈ m.assigns, ∀ y ∈ fv a.2, y ∈ π a.1 a.2)
    (hL' : layout (restrict m keep) π = some L') (hp : genRhs (restrict m keep) π ru = some p)
    (hsol : Solution N m L inp t ρ)
    (hs : ∀ i x, L'.state[i]? = some x → ρ x = inp' .states i)
    (hpar : ∀ i x, L'.param[i]? = some x → ρ x = inp' .params i)
    (hmis : ∀ i x, L'.missing[i]? = some x → ρ x = inp' .missing i)
    (hx : exec N inp' (initRhs t) p = some s') :
    ∀ i X, L'.state[i]? = some X → ∃ d, m.stateOfDeriv d = some X ∧ (ρ d).isSome ∧ s'.result i = ρ d := by
  intro i X hiX
  have hwf' := restrict_wf m keep hwf hc
  have hπ' : ∀ a ∈ (restrict m keep).assigns, ∀ y ∈ fv a.2, y ∈ π a.1 a.2 :=
    fun a ha => hπ a (C13.restrict_assigns m keep a ha)
  have hsol' := C13.split_glue N m L L' inp inp' t ρ keep hsol hs hpar hmis
  obtain ⟨d, hd, hsome, hres⟩ := genRhs_correct N (restrict m keep) π ru L' p inp' t ρ s' hwf' hπ' hL' hp hsol' hx i X hiX
  refine ⟨d, ?_, hsome, hres⟩
  -- a derivative of the part is a derivative of the full model
  obtain ⟨d', hd', h1, h2⟩ := (stateOfDeriv_facts (restrict m keep) hwf'.assigns_nodup).2.2 d X hd
  have hdm : d' ∈ m.derivs := by
    simp only [restrict, List.mem_filter] at hd'
    exact hd'.1
  have := (stateOfDeriv_facts m hwf.assigns_nodup).2.1 d' hdm
  rw [h1, h2] at this
  exact this

/-- … and the part's `missing_values` program hands the other part exactly the values `ρ` gives to
the names it asks for. -/
theorem split_missing_correct {α} (N : Num α) (m : Model) (keep : Name → Bool) (π : DepOrder) (req : List Name)
    (L L' : Layout) (p : List Stmt) (inp inp' : Inputs α) (t : α) (ρ : Env α) (s' : St α)
    (hwf : ModelWF m) (hc : Closed m keep) (hπ : ∀ a ∈ m.assigns, ∀ y ∈ fv a.2, y ∈ π a.1 a.2)
    (hreq : req.Nodup)
    (hdefd : ∀ r ∈ req, r ∈ (restrict m keep).stateNames ∨ r ∈ (restrict m keep).paramNames ∨ r ∈ (restrict m keep).assignNames)
    (hL' : layout (restrict m keep) π = some L') (hp : genMissing (restrict m keep) π req = some p)
    (hsol : Solution N m L inp t ρ)
    (hs : ∀ i x, L'.state[i]? = some x → ρ x = inp' .states i)
    (hpar : ∀ i x, L'.param[i]? = some x → ρ x = inp' .params i)
    (hmis : ∀ i x, L'.missing[i]? = some x → ρ x = inp' .missing i)
    (hx : exec N inp' (initRhs t) p = some s') :
    ∀ i x, req[i]? = some x → (ρ x).isSome ∧ s'.result i = ρ x := by
  have hwf' := restrict_wf m keep hwf hc
  have hπ' : ∀ a ∈ (restrict m keep).assigns, ∀ y ∈ fv a.2, y ∈ π a.1 a.2 :=
    fun a ha => hπ a (C13.restrict_assigns m keep a ha)
  have hsol' := C13.split_glue N m L L' inp inp' t ρ keep hsol hs hpar hmis
  exact GenValidMissing.genMissing_correct N (restrict m keep) π req L' p inp' t ρ s' hwf' hπ' hreq hdefd hL' hp hsol' hx

end SplitEndToEnd
end Gx
