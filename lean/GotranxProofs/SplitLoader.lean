import GotranxProofs.SplitEndToEnd
import GotranxProofs.LoaderExt
/-!
# A split by components is a closed restriction

`SplitEndToEnd` asks that the selection of names keeps a derivative exactly when it keeps its state (`Closed`).
For a model that came out of the loader and a selection "the atoms of the components named by `sel`" this is a
theorem: the loader pairs every derivative with its state inside every component (`compOf`), so the two atoms
belong to the same components.
-/
namespace Gx
namespace SplitEndToEnd
open GenValid C08

/-- the names of the atoms that belong to a selected component (`Component.to_ode()`, `ode - C`) -/
def keepSel (A : List RawAtom) (sel : String → Bool) : Name → Bool :=
  fun x => A.any fun a => a.name == x && a.comps.any sel

theorem keepSel_atom (A : List RawAtom) (hN : (A.map (·.name)).Nodup) (sel : String → Bool) (a : RawAtom) (ha : a ∈ A) :
    keepSel A sel a.name = a.comps.any sel := by
  unfold keepSel
  rw [Bool.eq_iff_iff]
  simp only [List.any_eq_true, Bool.and_eq_true, beq_iff_eq]
  constructor
  · rintro ⟨b, hb, hname, hsel⟩
    have : b = a := name_inj A hN b hb a ha hname
    subst this
    exact hsel
  · intro h
    exact ⟨a, ha, rfl, h⟩

theorem closed_of_components (atoms A : List RawAtom) (cs : List Comp) (hne : ∀ a ∈ atoms, a.comps ≠ [])
    (h : coreLoad atoms = .ok (A, cs)) (sel : String → Bool) :
    Closed (modelOfAtoms A) (keepSel A sel) := by
  obtain ⟨hs, hcomp, _, _, _⟩ := (accepts_iff atoms).mp ⟨_, h⟩
  have hA : A = allAtomsOf (buildComps atoms) := by
    unfold coreLoad at h
    split at h
    · cases h
    · split at h
      · cases h
      · simp only at h
        split at h
        · cases h
        · split at h
          · cases h
          · split at h
            · cases h
            · injection h with h
              simp only [Prod.mk.injEq] at h
              exact h.1.symm
  have hN : (A.map (·.name)).Nodup := by rw [hA]; exact allAtoms_names_nodup atoms hs
  have hAmem : ∀ x, x ∈ A ↔ x ∈ atoms := by intro x; rw [hA]; exact mem_allAtoms_iff atoms hs hne x
  -- pairing inside every component
  have hpair : ∀ c ∈ buildComps atoms,
      (∀ a ∈ c.atoms, a.kind = .assign → ∀ s, derivState a.name = some s → ∃ b ∈ c.atoms, b.kind = .state ∧ b.name = s) ∧
      (∀ b ∈ c.atoms, b.kind = .state → ∃ a ∈ c.atoms, a.kind = .assign ∧ derivState a.name = some b.name) := by
    intro c hc
    obtain ⟨comp, hcomp'⟩ := (compOf_ok_iff c).mpr (hcomp c hc)
    exact compOf_ok c comp hcomp'
  intro d hd
  -- the derivative atom
  have hdm : d ∈ (pickAtoms A .assign true).map (fun a => (a.name, (derivState a.name).getD "", a.expr)) := hd
  obtain ⟨a, ha, rfl⟩ := List.mem_map.mp hdm
  have ha' := (pickAtoms_perm A hN .assign true).mem_iff.mp ha
  simp only [List.mem_filter, Bool.and_eq_true, beq_iff_eq, bne_self_eq_false, Bool.false_or] at ha'
  obtain ⟨haA, hak, hder⟩ := ha'
  simp only [isDerivAtom, Bool.and_eq_true, beq_iff_eq] at hder
  obtain ⟨X, hX⟩ := Option.isSome_iff_exists.mp hder.2
  simp only [hX, Option.getD_some]
  have haat : a ∈ atoms := (hAmem a).mp haA
  -- its components are non-empty: pick one and find the state atom there
  obtain ⟨cn, hcn⟩ := List.exists_mem_of_ne_nil _ (hne a haat)
  obtain ⟨c, hc, hcname⟩ := (comp_name_iff atoms cn).mpr ⟨a, haat, hcn⟩
  have hac : a ∈ c.atoms := (mem_comp_iff atoms hs c hc a).mpr ⟨haat, hcname ▸ hcn⟩
  obtain ⟨b, hbc, hbk, hbn⟩ := (hpair c hc).1 a hac hak X hX
  have hbat : b ∈ atoms := mem_buildComps atoms c hc b hbc
  have hbA : b ∈ A := (hAmem b).mpr hbat
  rw [keepSel_atom A hN sel a haA, ← hbn, keepSel_atom A hN sel b hbA]
  -- the two atoms belong to the same components
  have hsub1 : ∀ n ∈ a.comps, n ∈ b.comps := by
    intro n hn
    obtain ⟨c', hc', hn'⟩ := (comp_name_iff atoms n).mpr ⟨a, haat, hn⟩
    have hac' : a ∈ c'.atoms := (mem_comp_iff atoms hs c' hc' a).mpr ⟨haat, hn' ▸ hn⟩
    obtain ⟨b', hb'c, hb'k, hb'n⟩ := (hpair c' hc').1 a hac' hak X hX
    have hb'at : b' ∈ atoms := mem_buildComps atoms c' hc' b' hb'c
    have : b' = b := eq_of_same_name atoms hs b' b hb'at hbat (hb'n.trans hbn.symm)
    subst this
    have := ((mem_comp_iff atoms hs c' hc' b').mp hb'c).2
    rw [hn'] at this; exact this
  have hsub2 : ∀ n ∈ b.comps, n ∈ a.comps := by
    intro n hn
    obtain ⟨c', hc', hn'⟩ := (comp_name_iff atoms n).mpr ⟨b, hbat, hn⟩
    have hbc' : b ∈ c'.atoms := (mem_comp_iff atoms hs c' hc' b).mpr ⟨hbat, hn' ▸ hn⟩
    obtain ⟨a', ha'c, ha'k, ha'n⟩ := (hpair c' hc').2 b hbc' hbk
    have ha'at : a' ∈ atoms := mem_buildComps atoms c' hc' a' ha'c
    have hnames : a'.name = a.name := derivState_inj a'.name a.name X (by rw [ha'n, hbn]) hX
    have : a' = a := eq_of_same_name atoms hs a' a ha'at haat hnames
    subst this
    have := ((mem_comp_iff atoms hs c' hc' a').mp ha'c).2
    rw [hn'] at this; exact this
  rw [Bool.eq_iff_iff]
  simp only [List.any_eq_true]
  exact ⟨fun ⟨n, hn, hs'⟩ => ⟨n, hsub1 n hn, hs'⟩, fun ⟨n, hn, hs'⟩ => ⟨n, hsub2 n hn, hs'⟩⟩

/-- **from the text to a well-formed part**: for every text the loader accepts (no quantity called `t` / `time`) and every
selection of components, the sub-model made of the atoms of the selected components is well formed — so `split_rhs_correct`
and `split_missing_correct` apply to every split of every loaded model. -/
theorem loaded_split_wf (text : String) (ld : Loaded) (h : loadStringP text = .ok ld) (ht : noTimeName ld.model = true) :
    ∃ A : List RawAtom, ld.model = modelOfAtoms A ∧
      ∀ sel : String → Bool, Closed ld.model (keepSel A sel) ∧ ModelWF (Impl.restrict ld.model (keepSel A sel)) := by
  have hwf := loadStringP_wf text ld h ht
  unfold loadStringP at h
  cases hp : parseOde text with
  | error e => simp [hp] at h
  | ok items =>
    simp only [hp] at h
    unfold loadItemsP at h
    simp only [bind, Except.bind] at h
    cases h1 : items.mapM atomsOfItem with
    | error e => simp [h1] at h
    | ok atomLists =>
      simp only [h1] at h
      cases h2 : coreLoad atomLists.flatten with
      | error e => simp [h2] at h
      | ok r =>
        obtain ⟨A, cs⟩ := r
        simp only [h2, pure, Except.pure] at h
        injection h with h
        have hm : ld.model = modelOfAtoms A := by rw [← h]
        have hne : ∀ a ∈ atomLists.flatten, a.comps ≠ [] := by
          intro a ha
          obtain ⟨l, hl, hal⟩ := List.mem_flatten.mp ha
          obtain ⟨it, _, hit⟩ := mapM_mem atomsOfItem items atomLists h1 l hl
          exact atomsOfItem_comps it l hit a hal
        refine ⟨A, hm, fun sel => ?_⟩
        have hc : Closed ld.model (keepSel A sel) := by
          rw [hm]; exact closed_of_components atomLists.flatten A cs hne h2 sel
        exact ⟨hc, restrict_wf ld.model _ hwf hc⟩

end SplitEndToEnd
end Gx
