import GotranxProofs.Exec
/-!
# Soundness of the validators

If a translated program passes `checkRhs` (resp. `checkMonitor`, `checkMissingValues`,
`checkScheme`) then **for every input** and **every interpretation of the primitives** its
result array holds, slot by slot, what the specification `Solution` prescribes — provided
each emitted expression means what the model's expression means at that solution
(`ExprOK`, the sympy interface assumption A1, validated numerically on every run).
-/
namespace Gx

theorem lookup_mem {α} (l : List (Name × α)) (x : Name) (v : α) (h : lookup l x = some v) :
    (x, v) ∈ l := by
  induction l with
  | nil => simp [lookup] at h
  | cons p rest ih =>
    obtain ⟨y, w⟩ := p
    by_cases hy : y = x
    · subst hy; simp [lookup] at h; simp [h]
    · simp [lookup, hy] at h; exact List.mem_cons_of_mem _ (ih h)

theorem storeSlots_eq (p : List Stmt) : storeSlots p = (stores p).map (·.1) := by
  induction p with
  | nil => rfl
  | cons st rest ih => cases st <;> simp [storeSlots, stores, ih]

theorem count_one_unique (l : List (Nat × Expr)) (i : Nat) (e1 e2 : Expr)
    (hc : (l.map (·.1)).count i = 1) (h1 : (i, e1) ∈ l) (h2 : (i, e2) ∈ l) : e1 = e2 := by
  induction l with
  | nil => simp at h1
  | cons q rest ih =>
    obtain ⟨j, e⟩ := q
    by_cases hj : j = i
    · subst hj
      have hc0 : (rest.map (·.1)).count j = 0 := by simpa [List.count_cons] using hc
      have hno : ∀ e', (j, e') ∉ rest := by
        intro e' hm
        have : j ∈ rest.map (·.1) := List.mem_map.mpr ⟨(j, e'), hm, rfl⟩
        exact (List.count_eq_zero.mp hc0) this
      simp only [List.mem_cons, Prod.mk.injEq, true_and] at h1 h2
      rcases h1 with h1 | h1
      · rcases h2 with h2 | h2
        · rw [h1, h2]
        · exact absurd h2 (hno _)
      · exact absurd h1 (hno _)
    · have hc' : (rest.map (·.1)).count i = 1 := by simpa [List.count_cons, hj] using hc
      simp only [List.mem_cons, Prod.mk.injEq] at h1 h2
      rcases h1 with h1 | h1
      · exact absurd h1.1.symm hj
      · rcases h2 with h2 | h2
        · exact absurd h2.1.symm hj
        · exact ih hc' h1 h2

theorem count_one_exists (l : List (Nat × Expr)) (i : Nat)
    (hc : (l.map (·.1)).count i = 1) : ∃ e, (i, e) ∈ l := by
  have : i ∈ l.map (·.1) := by
    apply List.count_pos_iff.mp; omega
  obtain ⟨q, hq, hqi⟩ := List.mem_map.mp this
  exact ⟨q.2, by rw [← hqi]; exact hq⟩

theorem lookupN_unique {α} (l : List (Nat × α)) (i : Nat) (v : α)
    (hex : (i, v) ∈ l) (hall : ∀ w, (i, w) ∈ l → w = v) : lookupN l i = some v := by
  induction l with
  | nil => simp at hex
  | cons q rest ih =>
    obtain ⟨j, w⟩ := q
    by_cases hj : j = i
    · subst hj
      have := hall w (by simp)
      simp [lookupN, this]
    · simp only [lookupN, hj, if_false]
      apply ih
      · simp only [List.mem_cons, Prod.mk.injEq] at hex
        rcases hex with hex | hex
        · exact absurd hex.1.symm hj
        · exact hex
      · intro w' hw'; exact hall w' (List.mem_cons_of_mem _ hw')

/-- With every slot `< n` stored exactly once, the result array entry is the value of the
unique stored expression. -/
theorem result_of_slotsExact {α} (N : Num α) (ρ : Env α) (p : List Stmt) (s' : St α) (n : Nat)
    (hs : slotsExact n p = true)
    (h2 : ∀ i v, (i, v) ∈ s'.out → ∃ e, (i, e) ∈ stores p ∧ eval N ρ e = some v)
    (h3 : ∀ i e, (i, e) ∈ stores p → ∃ v, eval N ρ e = some v ∧ (i, v) ∈ s'.out)
    (i : Nat) (hi : i < n) :
    ∃ e, (i, e) ∈ stores p ∧ (eval N ρ e).isSome ∧ s'.result i = eval N ρ e := by
  simp only [slotsExact, Bool.and_eq_true, List.all_eq_true, List.mem_range, beq_iff_eq] at hs
  have hc := hs.2 i hi
  rw [storeSlots_eq] at hc
  obtain ⟨e, he⟩ := count_one_exists _ _ hc
  obtain ⟨v, hv, hmem⟩ := h3 i e he
  refine ⟨e, he, by simp [hv], ?_⟩
  rw [hv]
  apply lookupN_unique _ _ _ hmem
  intro w hw
  obtain ⟨e', he', hv'⟩ := h2 i w hw
  have := count_one_unique _ _ _ _ hc he he'
  subst this
  rw [hv] at hv'; exact (Option.some.inj hv').symm

/-- The expression-level interface assumption for the defines of a program, *at one
solution*: each emitted right-hand side has the value of the model's right-hand side. -/
def ExprOK {α} (N : Num α) (m : Model) (ρ : Env α) (p : List Stmt) : Prop :=
  ∀ d ∈ defines p, ∀ e, m.rhsOf d.1 = some e → eval N ρ d.2 = eval N ρ e

theorem unpacks_ok {α} (N : Num α) (m : Model) (L : Layout) (inp : Inputs α) (t : α) (ρ : Env α)
    (p : List Stmt) (hsol : Solution N m L inp t ρ) (hu : checkUnpacks L p = true) :
    ∀ u ∈ unpacks p, ρ u.1 = inp u.2.1 u.2.2 := by
  intro u hmem
  simp only [checkUnpacks, List.all_eq_true] at hu
  have := hu u hmem
  obtain ⟨x, a, i⟩ := u
  cases a <;> simp only [beq_iff_eq] at this
  · exact hsol.1 i x this
  · exact hsol.2.1 i x this
  · exact hsol.2.2.1 i x this

theorem defines_ok {α} (N : Num α) (m : Model) (L : Layout) (inp : Inputs α) (t : α) (ρ : Env α)
    (p : List Stmt) (hsol : Solution N m L inp t ρ) (hd : checkDefines m [] p = true)
    (hok : ExprOK N m ρ p) : ∀ d ∈ defines p, ρ d.1 = eval N ρ d.2 := by
  intro d hmem
  simp only [checkDefines, List.all_eq_true, List.contains_nil, Bool.or_false] at hd
  obtain ⟨e, he⟩ := Option.isSome_iff_exists.mp (hd d hmem)
  have hmemA : (d.1, e) ∈ m.assigns := lookup_mem _ _ _ he
  rw [hok d hmem e he]
  exact (hsol.2.2.2.2 d.1 e hmemA).1

/-- Initial machine state of a generated function: only the time symbol is bound. -/
def initRhs {α} (t : α) : St α := ⟨[("t", t), ("time", t)], []⟩

theorem initRhs_agree {α} (N : Num α) (m : Model) (L : Layout) (inp : Inputs α) (t : α)
    (ρ : Env α) (hsol : Solution N m L inp t ρ) :
    ∀ x ∈ initBoundRhs, lookup (initRhs t).env x = ρ x := by
  intro x hx
  have := hsol.2.2.2.1 x hx
  simp only [initBoundRhs, timeNames, List.mem_cons, List.not_mem_nil, or_false] at hx
  rcases hx with rfl | rfl <;> simp [initRhs, lookup, this]

/-- **C01/C04 (rhs).** A program that passes `checkRhs` returns, in the slot the module's
own `state_index` reports for state `X`, the value the specification gives to `dX_dt` —
for every input and every interpretation of the primitive operations. -/
theorem checkRhs_sound {α} (N : Num α) (m : Model) (L : Layout) (inp : Inputs α) (t : α)
    (ρ : Env α) (p : List Stmt) (s' : St α)
    (hchk : checkRhs m L p = true)
    (hsol : Solution N m L inp t ρ)
    (hok : ExprOK N m ρ p)
    (hx : exec N inp (initRhs t) p = some s') :
    ∀ i X, L.state[i]? = some X →
      ∃ d, m.stateOfDeriv d = some X ∧ (ρ d).isSome ∧ s'.result i = ρ d := by
  simp only [checkRhs, Bool.and_eq_true] at hchk
  obtain ⟨⟨⟨⟨hw, hu⟩, hd⟩, hs⟩, hst⟩ := hchk
  obtain ⟨_, h2, h3, _⟩ := exec_agree N inp ρ p initBoundRhs (initRhs t) s'
    (unpacks_ok N m L inp t ρ p hsol hu) (defines_ok N m L inp t ρ p hsol hd hok)
    (initRhs_agree N m L inp t ρ hsol) hw hx
  intro i X hiX
  have hi : i < L.state.length := by
    rcases Nat.lt_or_ge i L.state.length with h | h
    · exact h
    · rw [List.getElem?_eq_none h] at hiX; cases hiX
  obtain ⟨e, he, hsome, hres⟩ := result_of_slotsExact N ρ p s' _ hs
    (fun i v hv => by
      rcases h2 i v hv with hh | hh
      · simp [initRhs] at hh
      · exact hh) h3 i hi
  simp only [List.all_eq_true] at hst
  have := hst (i, e) he
  simp only at this
  cases e with
  | var d =>
    simp only at this
    cases hsd : m.stateOfDeriv d with
    | none => simp [hsd] at this
    | some Y =>
      simp only [hsd, beq_iff_eq] at this
      rw [hiX] at this
      have hXY : X = Y := Option.some.inj this
      subst hXY
      exact ⟨d, hsd, by simpa [eval] using hsome, by simpa [eval] using hres⟩
  | _ => simp at this

/-- **C04 (monitor).** A program that passes `checkMonitor` returns every intermediate and
derivative in the slot `monitor_index` reports for it. -/
theorem checkMonitor_sound {α} (N : Num α) (m : Model) (L : Layout) (inp : Inputs α) (t : α)
    (ρ : Env α) (p : List Stmt) (s' : St α)
    (hchk : checkMonitor m L p = true)
    (hsol : Solution N m L inp t ρ)
    (hok : ExprOK N m ρ p)
    (hx : exec N inp (initRhs t) p = some s') :
    ∀ i x, L.monitor[i]? = some x → (ρ x).isSome ∧ s'.result i = ρ x := by
  simp only [checkMonitor, Bool.and_eq_true] at hchk
  obtain ⟨⟨⟨⟨hw, hu⟩, hd⟩, hs⟩, hst⟩ := hchk
  obtain ⟨_, h2, h3, _⟩ := exec_agree N inp ρ p initBoundRhs (initRhs t) s'
    (unpacks_ok N m L inp t ρ p hsol hu) (defines_ok N m L inp t ρ p hsol hd hok)
    (initRhs_agree N m L inp t ρ hsol) hw hx
  intro i x hix
  have hi : i < L.monitor.length := by
    rcases Nat.lt_or_ge i L.monitor.length with h | h
    · exact h
    · rw [List.getElem?_eq_none h] at hix; cases hix
  obtain ⟨e, he, hsome, hres⟩ := result_of_slotsExact N ρ p s' _ hs
    (fun i v hv => by
      rcases h2 i v hv with hh | hh
      · simp [initRhs] at hh
      · exact hh) h3 i hi
  simp only [List.all_eq_true] at hst
  have := hst (i, e) he
  cases e with
  | var y =>
    simp only [Bool.and_eq_true, beq_iff_eq] at this
    rw [hix] at this
    have hxy : x = y := Option.some.inj this.2
    subst hxy
    exact ⟨by simpa [eval] using hsome, by simpa [eval] using hres⟩
  | _ => simp at this

/-- **C13 (missing values).** A program that passes `checkMissingValues req` returns, in
slot `i`, the value of the `i`-th requested name. -/
theorem checkMissingValues_sound {α} (N : Num α) (m : Model) (L : Layout) (inp : Inputs α) (t : α)
    (ρ : Env α) (req : List Name) (p : List Stmt) (s' : St α)
    (hchk : checkMissingValues m L req p = true)
    (hsol : Solution N m L inp t ρ)
    (hok : ExprOK N m ρ p)
    (hx : exec N inp (initRhs t) p = some s') :
    ∀ i x, req[i]? = some x → (ρ x).isSome ∧ s'.result i = ρ x := by
  simp only [checkMissingValues, Bool.and_eq_true] at hchk
  obtain ⟨⟨⟨⟨hw, hu⟩, hd⟩, hs⟩, hst⟩ := hchk
  obtain ⟨_, h2, h3, _⟩ := exec_agree N inp ρ p initBoundRhs (initRhs t) s'
    (unpacks_ok N m L inp t ρ p hsol hu) (defines_ok N m L inp t ρ p hsol hd hok)
    (initRhs_agree N m L inp t ρ hsol) hw hx
  intro i x hix
  have hi : i < req.length := by
    rcases Nat.lt_or_ge i req.length with h | h
    · exact h
    · rw [List.getElem?_eq_none h] at hix; cases hix
  obtain ⟨e, he, hsome, hres⟩ := result_of_slotsExact N ρ p s' _ hs
    (fun i v hv => by
      rcases h2 i v hv with hh | hh
      · simp [initRhs] at hh
      · exact hh) h3 i hi
  simp only [List.all_eq_true] at hst
  have := hst (i, e) he
  cases e with
  | var y =>
    simp only [beq_iff_eq] at this
    rw [hix] at this
    have hxy : x = y := Option.some.inj this
    subst hxy
    exact ⟨by simpa [eval] using hsome, by simpa [eval] using hres⟩
  | _ => simp at this

/-- **Progress (C12: "never reads a name whose definition or unpacking was removed").**
A program that passes the scoping part of any validator cannot fail with a NameError as long
as the arrays have the unpacked slots. -/
theorem checkRhs_progress {α} (N : Num α) (m : Model) (L : Layout) (inp : Inputs α) (t : α)
    (p : List Stmt) (hchk : checkRhs m L p = true)
    (hin : ∀ u ∈ unpacks p, (inp u.2.1 u.2.2).isSome) :
    (exec N inp (initRhs t) p).isSome := by
  simp only [checkRhs, Bool.and_eq_true] at hchk
  refine exec_progress N inp p initBoundRhs (initRhs t) hin ?_ hchk.1.1.1.1
  intro x hx
  simp only [initBoundRhs, timeNames, List.mem_cons, List.not_mem_nil, or_false] at hx
  rcases hx with rfl | rfl <;> simp [initRhs, lookup]


/-- Initial machine state of a scheme function: the time symbol and `dt` are bound. -/
def initScheme {α} (t dt : α) : St α := ⟨[("dt", dt), ("t", t), ("time", t)], []⟩

/-- **Schemes (C05–C07, C12).** A program that passes `checkScheme` writes every state slot
exactly once, and the value found there is the value of the stored expression at any
environment `ρ` that satisfies the program's defines as equations, binds the unpacked names
to the inputs and agrees on `t`, `time`, `dt`. -/
theorem checkScheme_sound {α} (N : Num α) (m : Model) (L : Layout) (inp : Inputs α) (t dt : α)
    (ρ : Env α) (p : List Stmt) (s' : St α)
    (hchk : checkScheme m L p = true)
    (hsol : Solution N m L inp t ρ) (hdt : ρ "dt" = some dt)
    (hD : ∀ d ∈ defines p, ρ d.1 = eval N ρ d.2)
    (hx : exec N inp (initScheme t dt) p = some s') :
    ∀ i, i < L.state.length →
      ∃ e, (i, e) ∈ stores p ∧ (eval N ρ e).isSome ∧ s'.result i = eval N ρ e := by
  simp only [checkScheme, Bool.and_eq_true] at hchk
  obtain ⟨⟨⟨hw, hu⟩, _⟩, hs⟩ := hchk
  have h0 : ∀ x ∈ initBoundScheme, lookup (initScheme t dt).env x = ρ x := by
    intro x hx'
    simp only [initBoundScheme, timeNames, List.mem_cons, List.not_mem_nil, or_false] at hx'
    rcases hx' with rfl | rfl | rfl
    · simp [initScheme, hdt]
    · have := hsol.2.2.2.1 "t" (by simp [timeNames]); simp [initScheme, lookup, this]
    · have := hsol.2.2.2.1 "time" (by simp [timeNames]); simp [initScheme, lookup, this]
  obtain ⟨_, h2, h3, _⟩ := exec_agree N inp ρ p initBoundScheme (initScheme t dt) s'
    (unpacks_ok N m L inp t ρ p hsol hu) hD h0 hw hx
  intro i hi
  exact result_of_slotsExact N ρ p s' _ hs
    (fun i v hv => by
      rcases h2 i v hv with hh | hh
      · simp [initScheme] at hh
      · exact hh) h3 i hi

/-- A strengthening of `checkRhs_sound` that names the derivative: the value in slot `i` is
the value of the variable the program itself stores there, and that variable is a
derivative of the state the layout puts in slot `i`. -/
theorem checkRhs_sound_named {α} (N : Num α) (m : Model) (L : Layout) (inp : Inputs α) (t : α)
    (ρ : Env α) (p : List Stmt) (s' : St α)
    (hchk : checkRhs m L p = true) (hsol : Solution N m L inp t ρ) (hok : ExprOK N m ρ p)
    (hx : exec N inp (initRhs t) p = some s') :
    ∀ i X, L.state[i]? = some X →
      ∃ d, (i, Expr.var d) ∈ stores p ∧ m.stateOfDeriv d = some X ∧ s'.result i = ρ d := by
  simp only [checkRhs, Bool.and_eq_true] at hchk
  obtain ⟨⟨⟨⟨hw, hu⟩, hd⟩, hs⟩, hst⟩ := hchk
  obtain ⟨_, h2, h3, _⟩ := exec_agree N inp ρ p initBoundRhs (initRhs t) s'
    (unpacks_ok N m L inp t ρ p hsol hu) (defines_ok N m L inp t ρ p hsol hd hok)
    (initRhs_agree N m L inp t ρ hsol) hw hx
  intro i X hiX
  have hi : i < L.state.length := by
    rcases Nat.lt_or_ge i L.state.length with h | h
    · exact h
    · rw [List.getElem?_eq_none h] at hiX; cases hiX
  obtain ⟨e, he, _, hres⟩ := result_of_slotsExact N ρ p s' _ hs
    (fun i v hv => by
      rcases h2 i v hv with hh | hh
      · simp [initRhs] at hh
      · exact hh) h3 i hi
  simp only [List.all_eq_true] at hst
  have := hst (i, e) he
  cases e with
  | var d =>
    simp only at this
    cases hsd : m.stateOfDeriv d with
    | none => simp [hsd] at this
    | some Y =>
      simp only [hsd, beq_iff_eq] at this
      rw [hiX] at this
      have hXY : X = Y := Option.some.inj this
      subst hXY
      exact ⟨d, he, hsd, by simpa [eval] using hres⟩
  | _ => simp at this

end Gx
