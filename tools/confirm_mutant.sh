#!/bin/sh
# usage: confirm_mutant.sh <seeded dir> <scratch worktree>
# applies the patch in the scratch worktree, runs the demo (must fail), the test-suite (263 must pass),
# reverts, runs the demo again (must pass). Prints one summary line.
d=$1; wt=$2
cd "$wt" || exit 2
git checkout -q -- . 2>/dev/null
git apply --check "$d/patch.diff" || { echo "$d: PATCH DOES NOT APPLY"; exit 1; }
git apply "$d/patch.diff"
PYTHONPATH=$wt/src /venv/bin/python "$d/demo.py" > /tmp/demo_mut.$$ 2>&1; rc_mut=$?
PYTHONPATH=$wt/src /venv/bin/python -m pytest -q -p no:cacheprovider --timeout=900 --continue-on-collection-errors tests 2>&1 | tail -1 > /tmp/suite.$$
git checkout -q -- .
PYTHONPATH=$wt/src /venv/bin/python "$d/demo.py" > /tmp/demo_clean.$$ 2>&1; rc_clean=$?
echo "$d: demo_with_patch_rc=$rc_mut demo_clean_rc=$rc_clean suite: $(cat /tmp/suite.$$)"
rm -f /tmp/demo_mut.$$ /tmp/demo_clean.$$ /tmp/suite.$$
