#!/bin/bash
# runs every registered check (quick tier, default seed) 5 in parallel, writing evidence/<id>.json in place
cd "$(dirname "$0")/.."
props=$(/venv/bin/python -c "import json;print(' '.join(c['property_id'] for c in json.load(open('MANIFEST.json'))['checks']))")
(cd lean && lake build 2>&1 | tail -1)
echo $props | tr ' ' '\n' | xargs -P 5 -I{} bash -c 'out=$(./check {} --tier quick 2>&1); echo "$out" | tail -1 | cut -c1-170; echo "$out" | grep -c "^VIOLATION" | sed "s/^/   violations: /"' 
