"""Writes seeded/<id>/meta.json from the table below (what each seeded change breaks, what it needs, what was run)."""
import json
from pathlib import Path

ROOT = Path(__file__).resolve().parent.parent / "seeded"
T = {
 "C01-A": ("C01", "ContinuousConditional direction test uses isinstance(cond, GreaterThan): strict Gt takes the '<' branch", "a ContinuousConditional whose condition is the strict Gt", "C01 (rhs-value), first run"),
 "C01-B": ("C01", "Python printer writes x**2 of a bare symbol as x*x: a/x**2 becomes a/x*x", "exponent exactly 2, bare-symbol base, as the only factor of a denominator", "C01 (rhs-value)"),
 "C04-A": ("C04", "states/parameters IndexedBases built by walking the argument order: swapped when p precedes s", "a non-default argument order with p before s", "C04 (order-body / formals checks over all 6+24 orders)"),
 "C04-B": ("C04", "JAX template returns sorted(set(assigned _values_i)) (string sort)", "backend=jax and at least 11 outputs", "C04 after adding JAX models with more than 10 states (monitor-slot); also C03 (return-length)"),
 "C05-A": ("C05", "add_schemes resolves every scheme before generating: two aliases of one scheme get the same name", "two aliases of the same scheme in one get_code call", "C05 after adding the two-alias module check (alias-missing-in-module)"),
 "C05-B": ("C05", "explicit_euler skips the temporary of a derivative that is a bare symbol", "an alias derivative that another assignment references by name", "C05 after the generator learned alias derivatives and references to derivative names (raises/NameError)"),
 "C06-A": ("C06", "delta forwarded only for schemes in an explicit tuple that omits forward_generalized_rush_larsen", "the deprecated alias, a non-default delta, |g| between 1e-8 and delta", "C06 after alias + delta families were added (value/euler-branch/guarded)"),
 "C06-B": ("C06", "'linearisation vanishes' test uses any() over Piecewise branches", "a rate whose own-state derivative is a Piecewise with one zero branch, evaluated where g != 0", "C06 after conditional-with-zero-branch families were added (value/rl-branch)"),
 "C07-A": ("C07", "hybrid delegates to GRL when len(stiff set) == number of states", "a foreign name in stiff_states making the sizes equal", "C07 (foreign-names-matter, slot-nonstiff)"),
 "C07-B": ("C07", "stiff names compiled as regular expressions matched with re.match", "two states where one name is a proper prefix of the other", "C07 after prefix-related state names and targeted stiff sets were added (slot-nonstiff)"),
 "C12-A": ("C12", "rhs/scheme unpack only transitively reachable parameters/states while the sort keeps single-level-used intermediates", "a chain of unused intermediates reading an otherwise unused parameter", "C12 (rhs/raises/NameError) and broken validator checkRhs(remove_unused)"),
 "C12-B": ("C12", "scheme slots taken from the position in sorted_assignments(remove_unused) again", "remove_unused with a removed intermediate that reorders the derivatives", "C12 (explicit_euler/slots-permuted)"),
 "C08-A": ("C08", "duplicate table kept per component", "a kind clash with equal values, or two differing derivatives, in different components", "C08 after cross-component fault kinds were added"),
 "C08-B": ("C08", "resolved expressions memoised by lark tree only", "the same right-hand side resolved earlier in the process, then a text with the declaration deleted", "C08 after the 'undeclared_parameter' fault kind was added (base text is loaded first in the same process)"),
 "C09-A": ("C09", "kept intermediates taken from a set intersection under remove_unused", "remove_unused=True and two independent used intermediates; differs across PYTHONHASHSEED", "C09 after remove_unused output was added to the subprocess comparison (hashseed/py_ru)"),
 "C09-B": ("C09", "sympy.Dummy (global counter) for the linearisation helper when the model defines <d>_linearized", "a model with an atom named d<state>_dt_linearized and a Rush-Larsen scheme, generated twice", "C09 after the repetition check and the crafted-name model were added (repetition/py)"),
 "C10-A": ("C10", "fail-early derivative check in the text-order pass", "states of one component split over two blocks with the expressions block in between", "C10 (permutation-rejected)"),
 "C10-B": ("C10", "reading a dX_dt name before its definition raises MissingSymbolError", "an expression that reads a state's rate, placed before the definition", "C10 (permutation-rejected), thanks to the generator's references to derivative names"),
 "C02-A": ("C02", "C printer writes x**2 / x**3 as products without parentheses", "an integer power 2 or 3 directly as a divisor", "C02 after precedence idioms (a/x**2 ...) were added to the generator"),
 "C02-B": ("C02", "floor printed as a cast to long (truncation)", "floor of a negative non-integer", "C02 (monitor_values/value)"),
 "C03-A": ("C03", "JAX template returns sorted assigned slots (string sort)", "backend=jax and at least 11 outputs", "C03 (return-length)"),
 "C03-B": ("C03", "JAX And/Or printed with & and | without outer parentheses", "an Or nested inside an And", "C03 after crafted nested-connective models were added (rhs/value)"),
 "C14-A": ("C14", "n-ary And/Or printed as numpy.all(numpy.array([...])) without axis", "three or more operands and a batch call", "C14 (batch-raises)"),
 "C14-B": ("C14", "interval conditions printed as chained comparisons", "And of two inequalities sharing an operand, on a batch", "C14 after interval idioms were added (batch-raises/chained-comparison, arraySafe broken)"),
 "C11-A": ("C11", "writer's relation table keyed on sympy class names with GreaterThan -> Gt", "a >= comparison evaluated exactly at equality", "C11: extraction pin relop_table breaks; after boundary points were added also value-differs"),
 "C11-B": ("C11", "print_parameters writes one block per component", "a parameter shared between two components", "C11 after shared (two-tag) atoms were added to the generator (reload-rejected/DuplicateSymbolError)"),
 "C13-A": ("C13", "missing_values writes into values[n] (running counter)", "requested names whose emission order differs from alphabetical", "C13 (missing_values/value)"),
 "C13-B": ("C13", "early-exit bound counts only requested assignments", "a requested state or parameter plus a late intermediate", "C13 (missing_values/value)"),
 "C16-A": ("C16", "each component gets a lookup of its own atoms only", "the singular expression in another component than the state", "C16 after split-component models were added (singular-point-value)"),
 "C16-B": ("C16", "candidate singular variables restricted to isinstance(var, State)", "a singularity reached through an intermediate (shifted state)", "C16 after via-intermediate models were added and limits are evaluated through intermediates"),
 "C20-A": ("C20", "states_matrix uses name order", "a model whose dependency order differs from name order", "C20 (state-order)"),
 "C20-B": ("C20", "jacobi_matrix simplifies every entry", "a Conditional on a periodic function of a state / unevaluated relationals", "C20 (raises/TypeError; jacobian-value)"),
}
for k, (prop, what, needs, caught) in T.items():
    d = ROOT / k
    if not d.exists():
        continue
    meta = {"breaks_property": prop, "change": what, "needs_to_manifest": needs,
            "confirmed_by": "tools/confirm_mutant.sh in a scratch worktree: patch applies, demo.py exits 1 with the patch and 0 without, the 263 baseline tests still pass (10 failed / 12 errors are the environmental always-fail set)",
            "detected_by": caught,
            "run_against_checks": f"tools/try_mutant.sh seeded/{k} {prop}  (git -C /repo apply, ./check {prop} --tier quick, git -C /repo checkout -- .)"}
    (d / "meta.json").write_text(json.dumps(meta, indent=1) + "\n")
print("wrote", len([k for k in T if (ROOT / k).exists()]), "meta.json files")
