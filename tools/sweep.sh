#!/bin/bash
# usage: sweep.sh <tier> <seed>... ; runs every registered check for each seed, 5 in parallel; prints one line per run
tier=$1; shift
cd "$(dirname "$0")/.."
props=$(/venv/bin/python -c "import json;print(' '.join(c['property_id'] for c in json.load(open('MANIFEST.json'))['checks']))" 2>/dev/null)
[ -n "$SWEEP_PROPS" ] && props=$SWEEP_PROPS     # optional subset, e.g. SWEEP_PROPS="C03 C17"
mkdir -p /tmp/sweep
for seed in "$@"; do
  for p in $props; do
    echo "$p $seed"
  done
done | xargs -P 5 -L 1 bash -c 'p=$0; s=$1; out=$(VERIF_SEED=$s VERIF_EVIDENCE_DIR=/tmp/sweep/ev-$s ./check $p --tier '"$tier"' 2>&1 | grep -v "WARNING conda"); rc=$?; echo "$out" > /tmp/sweep/$p-$s.log; echo "$p seed=$s: $(echo "$out" | grep -c ^VIOLATION) violations | $(echo "$out" | tail -1 | cut -c1-160)"'
