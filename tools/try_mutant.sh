#!/bin/sh
# usage: try_mutant.sh <seeded dir> <Cxx> [<Cyy> ...]
# applies the patch in a scratch worktree of /repo (never in /repo itself), runs the checks against that tree
# (GOTRANX_REPO), and removes the worktree.  Evidence of these trial runs goes to /tmp, not to evidence/.
d=$1; shift
wt=/tmp/wt-try-$$
git -C /repo worktree add -q "$wt" HEAD || exit 2
git -C "$wt" apply "$d/patch.diff" || { git -C /repo worktree remove --force "$wt"; exit 2; }
for p in "$@"; do
  out=$(cd /verif && GOTRANX_REPO="$wt" VERIF_EVIDENCE_DIR=/tmp/try-evidence ./check "$p" --tier quick 2>&1 | grep -v 'WARNING conda')
  echo "== $d vs $p: $(echo "$out" | grep -c '^VIOLATION') violation line(s)"
  echo "$out" | grep -E '^VIOLATION' | cut -c1-260 | head -4
  echo "$out" | tail -1 | cut -c1-200
done
git -C /repo worktree remove --force "$wt"
# restore the extracted parameters of the real tree
(cd /verif && /venv/bin/python -m harness.extract > /dev/null 2>&1)
