#!/bin/sh
# usage: try_mutant.sh <seeded dir> <Cxx> [<Cyy> ...]   — runs the checks against /repo with the patch applied, then reverts
d=$1; shift
git -C /repo diff --quiet || { echo "/repo is dirty"; exit 2; }
git -C /repo apply "$d/patch.diff" || exit 2
for p in "$@"; do
  out=$(cd /verif && ./check "$p" --tier quick 2>&1 | grep -v 'WARNING conda')
  rc=$?
  echo "== $d vs $p: $(echo "$out" | grep -c '^VIOLATION') violation line(s)"
  echo "$out" | grep -E '^(VIOLATION|KNOWN)' | cut -c1-260 | head -4
  echo "$out" | tail -1 | cut -c1-200
done
git -C /repo checkout -- .
